//go:build verif

// Command verifhooks runs the auxiliary internal monitors that need the hooks
// of /repo/verif_hooks.go (build tag verif): a shadow-set monitor of the
// bitset used by GSAP and a naive-loop monitor of lcp/lcs/getLE64. They are
// diagnostics: their findings are recorded in the evidence of C12 / C19 and
// printed, but the verdict of a property is always decided at the public API.
package main

import (
	"encoding/json"
	"fmt"
	"math/rand"
	"os"
	"sort"
	"strconv"

	"github.com/ulikunitz/lz"
)

type result struct {
	Monitor    string   `json:"monitor"`
	Operations int64    `json:"operations"`
	Mismatches int64    `json:"mismatches"`
	First      string   `json:"first_mismatch,omitempty"`
	Observed   []string `json:"observed"`
}

func bitsetMonitor(seed int64, rounds int) result {
	res := result{Monitor: "bitset shadow set (insert/remove/clear/memberBefore/memberAfter/slice)"}
	obs := map[string]bool{}
	r := rand.New(rand.NewSource(seed))
	fail := func(format string, a ...any) {
		res.Mismatches++
		if res.First == "" {
			res.First = fmt.Sprintf(format, a...)
		}
	}
	for round := 0; round < rounds; round++ {
		var b lz.VerifBitset
		model := map[int]bool{}
		universe := []int{64, 130, 1000, 5000}[r.Intn(4)]
		for op := 0; op < 300; op++ {
			res.Operations++
			switch k := r.Intn(20); {
			case k < 9:
				x := r.Intn(universe)
				if r.Intn(4) == 0 {
					x = x &^ 63 // word boundaries
				}
				if r.Intn(8) == 0 {
					x |= 63
				}
				b.Insert(x)
				model[x] = true
				obs["insert"] = true
			case k < 11:
				x := r.Intn(universe)
				b.Remove(x)
				delete(model, x)
				obs["remove"] = true
			case k == 11:
				b.Clear()
				model = map[int]bool{}
				obs["clear (capacity retained)"] = true
			default:
				x := r.Intn(universe + 70)
				var members []int
				for m := range model {
					members = append(members, m)
				}
				sort.Ints(members)
				wb, wok := -1, false
				for _, m := range members {
					if m < x {
						wb, wok = m, true
					}
				}
				wa, waok := -1, false
				for i := len(members) - 1; i >= 0; i-- {
					if members[i] > x {
						wa, waok = members[i], true
					}
				}
				gb, gok := b.MemberBefore(x)
				if gok != wok || (wok && gb != wb) {
					fail("memberBefore(%d) = %d,%v want %d,%v; set %v", x, gb, gok, wb, wok, members)
				}
				ga, gaok := b.MemberAfter(x)
				if gaok != waok || (waok && ga != wa) {
					fail("memberAfter(%d) = %d,%v want %d,%v; set %v", x, ga, gaok, wa, waok, members)
				}
				if k == 19 {
					s := b.Slice()
					if len(s) != len(members) {
						fail("slice() = %v want %v", s, members)
					} else {
						for i := range s {
							if s[i] != members[i] {
								fail("slice() = %v want %v", s, members)
								break
							}
						}
					}
				}
				obs["memberBefore/memberAfter"] = true
			}
		}
	}
	for k := range obs {
		res.Observed = append(res.Observed, k)
	}
	sort.Strings(res.Observed)
	return res
}

func naiveLCP(p, q []byte) int {
	n := 0
	for n < len(p) && n < len(q) && p[n] == q[n] {
		n++
	}
	return n
}

func naiveLCS(p, q []byte) int {
	n := 0
	for n < len(p) && n < len(q) && p[len(p)-1-n] == q[len(q)-1-n] {
		n++
	}
	return n
}

func lcpMonitor(seed int64) result {
	res := result{Monitor: "lcp/lcs/getLE64 against naive loops, all lengths 0..40 x all mismatch positions"}
	r := rand.New(rand.NewSource(seed))
	fail := func(format string, a ...any) {
		res.Mismatches++
		if res.First == "" {
			res.First = fmt.Sprintf(format, a...)
		}
	}
	for la := 0; la <= 40; la++ {
		for lb := 0; lb <= 40; lb++ {
			for mis := -1; mis < la && mis < lb; mis++ {
				for fill := 0; fill < 3; fill++ {
					c := []byte{0x00, 0xff, byte(r.Intn(256))}[fill]
					p := make([]byte, la)
					q := make([]byte, lb)
					for i := range p {
						p[i] = c
					}
					for i := range q {
						q[i] = c
					}
					// prefix variant
					if mis >= 0 {
						q[mis] ^= byte(1 << uint(r.Intn(8)))
					}
					res.Operations++
					if g, w := lz.VerifLCP(p, q), naiveLCP(p, q); g != w {
						fail("lcp(%x,%x)=%d want %d", p, q, g, w)
					}
					// suffix variant
					if mis >= 0 {
						q[mis] = c
						q[lb-1-mis] ^= byte(1 << uint(r.Intn(8)))
					}
					res.Operations++
					if g, w := lz.VerifLCS(p, q), naiveLCS(p, q); g != w {
						fail("lcs(%x,%x)=%d want %d", p, q, g, w)
					}
				}
			}
		}
	}
	for n := 0; n <= 12; n++ {
		p := make([]byte, n)
		for i := range p {
			p[i] = byte(0x11 * (i + 1))
		}
		var want uint64
		for i := 0; i < n && i < 8; i++ {
			want |= uint64(p[i]) << (8 * uint(i))
		}
		res.Operations++
		if g := lz.VerifGetLE64(p); g != want {
			fail("getLE64(%x)=%x want %x", p, g, want)
		}
	}
	res.Observed = []string{"lcp", "lcs", "getLE64"}
	return res
}

func main() {
	seed := int64(1)
	if s := os.Getenv("VERIF_SEED"); s != "" {
		if v, err := strconv.ParseInt(s, 10, 64); err == nil {
			seed = v
		}
	}
	which := "all"
	if len(os.Args) > 1 {
		which = os.Args[1]
	}
	var out []result
	if which == "all" || which == "bitset" {
		out = append(out, bitsetMonitor(seed, 3000))
	}
	if which == "all" || which == "lcp" {
		out = append(out, lcpMonitor(seed))
	}
	b, _ := json.MarshalIndent(out, "", " ")
	fmt.Println(string(b))
}
