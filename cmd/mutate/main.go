// Command mutate generates single-site source mutants of the library (not part
// of any check: it is the tool behind scripts/mutation_survey.sh, which looks
// for changes that no check notices).
//
//	mutate -repo /repo -out /tmp/muts -stride 7 -offset 3 [-files a.go,b.go]
//
// Operators: relational operator replacement, +/- swap, integer literal +-1,
// removal of x++/x--/op= statements, negation of if conditions, && <-> ||.
// Every mutant is written as out/<n>/<file> together with out/<n>/meta.txt.
package main

import (
	"bytes"
	"flag"
	"fmt"
	"go/ast"
	"go/parser"
	"go/printer"
	"go/token"
	"os"
	"path/filepath"
	"strconv"
	"strings"
)

type site struct {
	desc  string
	apply func() (undo func())
	pos   token.Pos
}

func main() {
	repo := flag.String("repo", "/repo", "repository")
	out := flag.String("out", "/tmp/muts", "output directory")
	stride := flag.Int("stride", 1, "take every stride-th mutant")
	offset := flag.Int("offset", 0, "first mutant of the stride")
	filesFlag := flag.String("files", "", "comma separated files (default: all non-test .go files)")
	flag.Parse()
	var files []string
	if *filesFlag != "" {
		files = strings.Split(*filesFlag, ",")
	} else {
		for _, pat := range []string{"*.go", "suffix/*.go"} {
			m, _ := filepath.Glob(filepath.Join(*repo, pat))
			for _, f := range m {
				rel, _ := filepath.Rel(*repo, f)
				if strings.HasSuffix(rel, "_test.go") || rel == "verif_hooks.go" {
					continue
				}
				files = append(files, rel)
			}
		}
	}
	n, written := 0, 0
	for _, rel := range files {
		fset := token.NewFileSet()
		f, err := parser.ParseFile(fset, filepath.Join(*repo, rel), nil, parser.ParseComments)
		if err != nil {
			fmt.Fprintln(os.Stderr, err)
			continue
		}
		var sites []site
		add := func(p token.Pos, desc string, apply func() func()) {
			sites = append(sites, site{desc: desc, apply: apply, pos: p})
		}
		rel2 := map[token.Token][]token.Token{
			token.LSS: {token.LEQ}, token.LEQ: {token.LSS}, token.GTR: {token.GEQ}, token.GEQ: {token.GTR},
			token.EQL: {token.NEQ}, token.NEQ: {token.EQL},
			token.ADD: {token.SUB}, token.SUB: {token.ADD},
			token.LAND: {token.LOR}, token.LOR: {token.LAND},
			token.SHL: {token.SHR}, token.SHR: {token.SHL},
		}
		ast.Inspect(f, func(nd ast.Node) bool {
			switch x := nd.(type) {
			case *ast.FuncDecl:
				// configuration plumbing and String methods are not interesting
				name := x.Name.Name
				if name == "String" || name == "computeEdgeStats" {
					return false
				}
			case *ast.BinaryExpr:
				for _, t := range rel2[x.Op] {
					t := t
					old := x.Op
					add(x.OpPos, fmt.Sprintf("%s -> %s", old, t), func() func() { x.Op = t; return func() { x.Op = old } })
				}
			case *ast.BasicLit:
				if x.Kind == token.INT {
					v, err := strconv.ParseInt(x.Value, 0, 64)
					if err == nil && v >= 0 && v < 1<<20 {
						for _, d := range []int64{1, -1} {
							if v+d < 0 {
								continue
							}
							nv := strconv.FormatInt(v+d, 10)
							old := x.Value
							add(x.ValuePos, fmt.Sprintf("literal %s -> %s", old, nv), func() func() { x.Value = nv; return func() { x.Value = old } })
						}
					}
				}
			case *ast.IfStmt:
				old := x.Cond
				add(x.If, "negate if condition", func() func() {
					x.Cond = &ast.UnaryExpr{Op: token.NOT, X: &ast.ParenExpr{X: old}}
					return func() { x.Cond = old }
				})
			case *ast.BlockStmt:
				for i, st := range x.List {
					switch s := st.(type) {
					case *ast.IncDecStmt:
						_ = s
					case *ast.AssignStmt:
						if s.Tok == token.DEFINE || s.Tok == token.ASSIGN && len(s.Lhs) > 1 {
							continue
						}
					case *ast.ExprStmt:
						if _, ok := s.X.(*ast.CallExpr); !ok {
							continue
						}
					default:
						continue
					}
					i, st := i, st
					add(st.Pos(), "delete statement", func() func() {
						x.List[i] = &ast.EmptyStmt{Semicolon: st.Pos()}
						return func() { x.List[i] = st }
					})
				}
			}
			return true
		})
		for _, s := range sites {
			idx := n
			n++
			if idx%*stride != *offset%*stride {
				continue
			}
			undo := s.apply()
			var buf bytes.Buffer
			err := printer.Fprint(&buf, fset, f)
			undo()
			if err != nil {
				continue
			}
			dir := filepath.Join(*out, fmt.Sprintf("%05d", idx))
			os.MkdirAll(filepath.Join(dir, filepath.Dir(rel)), 0o755)
			os.WriteFile(filepath.Join(dir, rel), buf.Bytes(), 0o644)
			p := fset.Position(s.pos)
			os.WriteFile(filepath.Join(dir, "meta.txt"), []byte(fmt.Sprintf("%s\n%s:%d\n%s\n", rel, rel, p.Line, s.desc)), 0o644)
			written++
		}
	}
	fmt.Printf("%d mutation sites, %d mutants written to %s\n", n, written, *out)
}
