// Command verif is the single binary behind ./check: orchestrator, worker and
// replay tool for the runtime monitors of the lz properties.
package main

import (
	"bufio"
	"encoding/json"
	"flag"
	"fmt"
	"os"
	"os/exec"
	"path/filepath"
	"runtime"
	"sort"
	"strconv"
	"strings"
	"sync"
	"sync/atomic"
	"syscall"
	"time"

	"verif/core"
	"verif/props"
)

// kindTable lists per kind of case the CPU budget of the watchdog and the most
// expensive case observed in this run (kinds are grouped by their class, the
// part before the parser type).
func kindTable(budget map[string]int, maxms map[string]int64) map[string]any {
	type row struct {
		Budget int   `json:"cpu_budget_s"`
		MaxMs  int64 `json:"most_expensive_case_cpu_ms"`
	}
	out := map[string]any{}
	agg := map[string]*row{}
	for k, b := range budget {
		class := k
		if i := strings.LastIndex(k, ":"); i >= 0 {
			class = k[:i] + ":*"
		}
		r := agg[class]
		if r == nil {
			r = &row{}
			agg[class] = r
		}
		if b > r.Budget {
			r.Budget = b
		}
		if maxms[k] > r.MaxMs {
			r.MaxMs = maxms[k]
		}
	}
	for k, r := range agg {
		out[k] = r
	}
	return out
}

func main() {
	if len(os.Args) < 2 {
		fmt.Fprintln(os.Stderr, "usage: verif run|worker|replay|list ...")
		os.Exit(2)
	}
	switch os.Args[1] {
	case "run":
		os.Exit(cmdRun(os.Args[2:]))
	case "worker":
		os.Exit(cmdWorker(os.Args[2:]))
	case "replay":
		os.Exit(cmdReplay(os.Args[2:]))
	case "list":
		for _, id := range core.IDs() {
			fmt.Println(id)
		}
	default:
		fmt.Fprintln(os.Stderr, "unknown command", os.Args[1])
		os.Exit(2)
	}
}

// ---------------------------------------------------------------- worker

type workerOut struct {
	Stats      *core.Stats      `json:"stats"`
	FP         []uint64         `json:"fp"`
	Violations []core.Violation `json:"violations"`
	Done       bool             `json:"done"`
	CPU        float64          `json:"cpu_s"`
}

type shard struct {
	Kind   string
	Lo, Hi int64
}

func setRlimits(cpuSec uint64, asBytes uint64) {
	if cpuSec > 0 {
		// soft limit sends SIGXCPU (survived by the Go runtime), the hard
		// limit SIGKILL
		lim := syscall.Rlimit{Cur: cpuSec, Max: cpuSec + 2}
		syscall.Setrlimit(syscall.RLIMIT_CPU, &lim)
	}
	if asBytes > 0 {
		lim := syscall.Rlimit{Cur: asBytes, Max: asBytes}
		syscall.Setrlimit(syscall.RLIMIT_AS, &lim)
	}
}

func cpuMicros() int64 {
	var ru syscall.Rusage
	syscall.Getrusage(syscall.RUSAGE_SELF, &ru)
	return (ru.Utime.Sec+ru.Stime.Sec)*1e6 + ru.Utime.Usec + ru.Stime.Usec
}

func cmdWorker(args []string) int {
	fs := flag.NewFlagSet("worker", flag.ExitOnError)
	prop := fs.String("prop", "", "")
	tier := fs.String("tier", "quick", "")
	seed := fs.Int64("seed", 1, "")
	kind := fs.String("kind", "", "")
	lo := fs.Int64("lo", 0, "")
	hi := fs.Int64("hi", 0, "")
	out := fs.String("out", "", "")
	journal := fs.String("journal", "", "")
	replayDir := fs.String("replaydir", "", "")
	cpu := fs.Uint64("cpu", 0, "CPU seconds limit")
	as := fs.Uint64("as", 0, "address space limit in bytes")
	maxViol := fs.Int("maxviol", 10, "")
	caseCPU := fs.Int("casecpu", 0, "CPU seconds allowed for a single case")
	fs.Parse(args)
	p, ok := core.Lookup(*prop)
	if !ok {
		fmt.Fprintln(os.Stderr, "unknown property", *prop)
		return 2
	}
	setRlimits(*cpu, *as)
	jf, err := os.OpenFile(*journal, os.O_CREATE|os.O_WRONLY|os.O_TRUNC, 0o644)
	if err != nil {
		fmt.Fprintln(os.Stderr, err)
		return 2
	}
	defer jf.Close()
	st := core.NewStats()
	wo := &workerOut{Stats: st}
	wkf := loadKnown()
	knownKept := map[string]int{}
	unknown := 0
	jbuf := make([]byte, 0, 64)
	// per-case CPU watchdog: a case that consumes more than caseCPU seconds
	// of CPU time (not wall clock, so machine load does not matter) does not
	// make progress; the worker marks the journal and exits with status 3.
	var jmu sync.Mutex
	var caseStart atomic.Int64 // CPU microseconds at the start of the case
	var caseIdx atomic.Int64
	caseStart.Store(-1)
	if *caseCPU > 0 {
		go func() {
			for {
				time.Sleep(200 * time.Millisecond)
				s0 := caseStart.Load()
				if s0 < 0 {
					continue
				}
				if cpuMicros()-s0 > int64(*caseCPU)*1e6 {
					// the journal mutex keeps the main goroutine from
					// overwriting the mark if the case ends just now
					jmu.Lock()
					if caseStart.Load() != s0 {
						// the case ended in the meantime
						jmu.Unlock()
						continue
					}
					hb := strconv.AppendInt([]byte("H "), caseIdx.Load(), 10)
					hb = append(hb, "                    \n"...)
					jf.WriteAt(hb[:24], 0)
					os.Exit(3)
				}
			}
		}()
	}
	for idx := *lo; idx < *hi; idx++ {
		caseIdx.Store(idx)
		t0 := cpuMicros()
		caseStart.Store(t0)
		// journal: case coordinates before the case runs ("S"), completion
		// mark afterwards ("D"); one positional write each
		jbuf = strconv.AppendInt(append(jbuf[:0], 'S', ' '), idx, 10)
		jbuf = append(jbuf, "                    \n"...)
		jmu.Lock()
		jf.WriteAt(jbuf[:24], 0)
		jmu.Unlock()
		c := p.Gen(*kind, idx, *seed, *tier)
		vs := runCase(p, &c, st)
		st.Evaluations++
		ms := (cpuMicros() - t0) / 1000
		if ms > st.MaxCaseCPUms {
			st.MaxCaseCPUms, st.MaxCaseKind, st.MaxCaseIdx = ms, *kind, idx
		}
		if st.MaxKindCPUms == nil {
			st.MaxKindCPUms = map[string]int64{}
		}
		if ms >= st.MaxKindCPUms[*kind] {
			st.MaxKindCPUms[*kind] = ms
		}
		jmu.Lock()
		caseStart.Store(-1)
		jbuf[0] = 'D'
		jf.WriteAt(jbuf[:24], 0)
		jmu.Unlock()
		for _, v := range vs {
			if e := wkf.match(&v); e != nil {
				// a listed finding: keep a few witnesses, never stop for it
				knownKept[e.ID]++
				st.Inc("known_finding_hits:" + e.ID)
				if knownKept[e.ID] > 2 {
					continue
				}
			} else {
				unknown++
			}
			v.Replay = writeReplay(*replayDir, &v)
			wo.Violations = append(wo.Violations, v)
		}
		if unknown >= *maxViol {
			break
		}
	}
	wo.Done = true
	for k := range st.FP {
		wo.FP = append(wo.FP, k)
	}
	var ru syscall.Rusage
	syscall.Getrusage(syscall.RUSAGE_SELF, &ru)
	wo.CPU = float64(ru.Utime.Sec+ru.Stime.Sec) + float64(ru.Utime.Usec+ru.Stime.Usec)/1e6
	b, _ := json.Marshal(wo)
	if err := os.WriteFile(*out, b, 0o644); err != nil {
		fmt.Fprintln(os.Stderr, err)
		return 2
	}
	return 0
}

// runCase runs one case; a panic that escapes the monitor's own recover is a
// violation attributed to the case.
func runCase(p core.Property, c *core.Case, st *core.Stats) (vs []core.Violation) {
	defer func() {
		if r := recover(); r != nil {
			buf := make([]byte, 4096)
			buf = buf[:runtime.Stack(buf, false)]
			vs = append(vs, core.V(c, "harness-panic", "panic escaped the monitor: %v\n%s", r, buf))
		}
	}()
	// the error value the fault plans of this case inject (a function of the
	// case index, so that a replay uses the same value)
	props.SetInjectedError(c.Idx)
	return p.Run(c, st)
}

var replaySeq struct {
	sync.Mutex
	n int
}

func writeReplay(dir string, v *core.Violation) string {
	replaySeq.Lock()
	replaySeq.n++
	n := replaySeq.n
	replaySeq.Unlock()
	os.MkdirAll(dir, 0o755)
	name := filepath.Join(dir, fmt.Sprintf("replay-%s-%s-%d-%d.json", v.Prop, sanitize(v.Case.Kind), v.Case.Idx, n))
	b, _ := json.MarshalIndent(map[string]any{
		"property": v.Prop, "class": v.Class, "message": v.Msg, "case": v.Case,
	}, "", " ")
	os.WriteFile(name, b, 0o644)
	return name
}

func sanitize(s string) string {
	return strings.Map(func(r rune) rune {
		if r == '/' || r == ' ' || r == ':' {
			return '_'
		}
		return r
	}, s)
}

// ---------------------------------------------------------------- replay

func cmdReplay(args []string) int {
	if len(args) < 1 {
		fmt.Fprintln(os.Stderr, "usage: verif replay <file>")
		return 2
	}
	b, err := os.ReadFile(args[0])
	if err != nil {
		fmt.Fprintln(os.Stderr, err)
		return 2
	}
	var rf struct {
		Property string    `json:"property"`
		Class    string    `json:"class"`
		Message  string    `json:"message"`
		Case     core.Case `json:"case"`
	}
	if err := json.Unmarshal(b, &rf); err != nil {
		fmt.Fprintln(os.Stderr, err)
		return 2
	}
	p, ok := core.Lookup(rf.Case.Prop)
	if !ok {
		fmt.Fprintln(os.Stderr, "unknown property", rf.Case.Prop)
		return 2
	}
	fmt.Printf("replaying %s kind=%s idx=%d (recorded: class=%s)\n", rf.Case.Prop, rf.Case.Kind, rf.Case.Idx, rf.Class)
	st := core.NewStats()
	vs := runCase(p, &rf.Case, st)
	if len(vs) == 0 {
		fmt.Println("no violation on replay")
		return 0
	}
	kf := loadKnown()
	code := 0
	for _, v := range vs {
		if e := kf.match(&v); e != nil {
			fmt.Printf("KNOWN-FINDING: property=%s %s\n", v.Prop, e.What)
			continue
		}
		fmt.Printf("VIOLATION property=%s replay=%s\n  class=%s\n  %s\n", v.Prop, args[0], v.Class, v.Msg)
		code = 1
	}
	return code
}

// ---------------------------------------------------------------- known findings

type knownEntry struct {
	ID       string `json:"id"`
	Property string `json:"property"`
	Status   string `json:"status"` // open | fixed
	Class    string `json:"class"`
	What     string `json:"what"`
	Commit   string `json:"commit,omitempty"`
	Record   string `json:"record,omitempty"`
}

type knownFile struct {
	Findings []knownEntry `json:"findings"`
}

func verifDir() string {
	if d := os.Getenv("VERIF_DIR"); d != "" {
		return d
	}
	if wd, err := os.Getwd(); err == nil {
		return wd
	}
	return "/verif"
}

func loadKnown() *knownFile {
	kf := &knownFile{}
	b, err := os.ReadFile(filepath.Join(verifDir(), "known_findings.json"))
	if err != nil {
		return kf
	}
	json.Unmarshal(b, kf)
	return kf
}

// match returns the open entry that lists exactly this failure class.
func (kf *knownFile) match(v *core.Violation) *knownEntry {
	for i := range kf.Findings {
		e := &kf.Findings[i]
		if e.Status == "open" && e.Property == v.Prop && e.Class == v.Class {
			return e
		}
	}
	return nil
}

// ---------------------------------------------------------------- orchestrator

type evidence struct {
	PropertyID  string         `json:"property_id"`
	Tier        string         `json:"tier"`
	Seed        int64          `json:"seed"`
	Level       string         `json:"level"`
	Coverage    map[string]any `json:"coverage"`
	Assumptions []string       `json:"assumptions"`
	WallS       float64        `json:"wall_s"`
	Violations  int            `json:"violations"`
}

func cmdRun(args []string) int {
	fs := flag.NewFlagSet("run", flag.ExitOnError)
	tier := fs.String("tier", "quick", "")
	seed := fs.Int64("seed", 1, "")
	bin := fs.String("bin", os.Args[0], "worker binary")
	plainbin := fs.String("plainbin", "", "worker binary for the kinds that run a single goroutine (used with a -race build: only the concurrent kinds need the instrumented binary)")
	workers := fs.Int("workers", 0, "")
	covdir := fs.String("covdir", "", "GOCOVERDIR for workers (thorough)")
	fs.Parse(args)
	if fs.NArg() < 1 {
		fmt.Fprintln(os.Stderr, "usage: verif run [flags] <property>")
		return 2
	}
	id := fs.Arg(0)
	p, ok := core.Lookup(id)
	if !ok {
		fmt.Fprintln(os.Stderr, "unknown property", id)
		return 2
	}
	if s := os.Getenv("VERIF_SEED"); s != "" {
		if v, err := strconv.ParseInt(s, 10, 64); err == nil {
			*seed = v
		}
	}
	if *workers <= 0 {
		*workers = runtime.NumCPU()
		if *workers > 16 {
			*workers = 16
		}
	}
	start := time.Now()
	work := filepath.Join(verifDir(), ".work", id)
	os.RemoveAll(work)
	os.MkdirAll(work, 0o755)

	plan := p.Plan(*tier, *seed)
	devKinds := os.Getenv("VERIF_DEV_KINDS")
	if devKinds != "" {
		// development aid: only the kinds with this prefix (the run is
		// reported inconclusive, it is not the registered check)
		var sub []core.Segment
		for _, sg := range plan {
			if strings.HasPrefix(sg.Kind, devKinds) {
				sub = append(sub, sg)
			}
		}
		plan = sub
	}
	var shards []shard
	exhaustive := len(plan) > 0
	var totalN int64
	for _, sg := range plan {
		if sg.Chunk <= 0 {
			totalN += sg.N
		}
	}
	// about 6 shards per worker over the whole plan (not per segment: worker
	// start-up is expensive in the race and coverage builds)
	perShard := (totalN + int64(6**workers) - 1) / int64(6**workers)
	if perShard < 1 {
		perShard = 1
	}
	for _, sg := range plan {
		if !sg.Exhaustive {
			exhaustive = false
		}
		chunk := sg.Chunk
		if chunk <= 0 {
			chunk = perShard
		}
		for lo := int64(0); lo < sg.N; lo += chunk {
			hi := lo + chunk
			if hi > sg.N {
				hi = sg.N
			}
			shards = append(shards, shard{sg.Kind, lo, hi})
		}
	}

	total := core.NewStats()
	var viols []core.Violation
	var mu sync.Mutex
	var inconclusive []string
	if devKinds != "" {
		inconclusive = append(inconclusive, "VERIF_DEV_KINDS is set: only a part of the plan was run")
	}
	cpuLimit := uint64(600)
	if *tier == "thorough" {
		cpuLimit = 3600
	}
	if s := os.Getenv("VERIF_CPU_LIMIT"); s != "" {
		if v, err := strconv.ParseUint(s, 10, 64); err == nil {
			cpuLimit = v
		}
	}
	// per-case CPU budgets are kept >= 10x the most expensive case observed
	// on the unchanged tree (evidence: coverage.most_expensive_case)
	caseCPU := 60
	if *tier == "thorough" {
		caseCPU = 300
	}
	if cl, ok := p.(interface{ CaseCPU(tier string) int }); ok {
		caseCPU = cl.CaseCPU(*tier)
	}
	if s := os.Getenv("VERIF_CASE_CPU"); s != "" {
		if v, err := strconv.Atoi(s); err == nil {
			caseCPU = v
		}
	}
	// per-kind budgets (small geometries need microseconds per case)
	kindCPU := func(kind string) int {
		if os.Getenv("VERIF_CASE_CPU") == "" {
			if kl, ok := p.(interface{ KindCPU(kind, tier string) int }); ok {
				if v := kl.KindCPU(kind, *tier); v > 0 {
					return v
				}
			}
		}
		return caseCPU
	}
	kindBudgets := map[string]int{}
	wallLimit := time.Duration(cpuLimit) * 4 * time.Second
	asLimit := uint64(12 << 30)
	if os.Getenv("VERIF_RACE") == "1" {
		asLimit = 0 // the race detector reserves terabytes of address space
	}

	// after a few worker deaths or many violations the verdict is settled:
	// the remaining shards are skipped (the evidence says so)
	kf := loadKnown()
	unknownCount := 0
	var stop atomic.Bool
	var skipped, deaths atomic.Int64
	sem := make(chan struct{}, *workers)
	var wg sync.WaitGroup
	for si, sh := range shards {
		wg.Add(1)
		sem <- struct{}{}
		go func(si int, sh shard) {
			defer wg.Done()
			defer func() { <-sem }()
			lo := sh.Lo
			for attempt := 0; attempt < 4 && lo < sh.Hi; attempt++ {
				if stop.Load() {
					skipped.Add(1)
					return
				}
				outf := filepath.Join(work, fmt.Sprintf("shard-%d-%d.json", si, attempt))
				jf := filepath.Join(work, fmt.Sprintf("shard-%d-%d.journal", si, attempt))
				errf := filepath.Join(work, fmt.Sprintf("shard-%d-%d.stderr", si, attempt))
				caseCPU := kindCPU(sh.Kind)
				mu.Lock()
				kindBudgets[sh.Kind] = caseCPU
				mu.Unlock()
				wbin := *bin
				if *plainbin != "" && !strings.HasPrefix(sh.Kind, "conc") {
					wbin = *plainbin
				}
				cmd := exec.Command(wbin, "worker", "-prop", id, "-tier", *tier,
					"-seed", strconv.FormatInt(*seed, 10), "-kind", sh.Kind,
					"-lo", strconv.FormatInt(lo, 10), "-hi", strconv.FormatInt(sh.Hi, 10),
					"-out", outf, "-journal", jf, "-replaydir", work,
					"-cpu", strconv.FormatUint(cpuLimit, 10), "-as", strconv.FormatUint(asLimit, 10),
					"-casecpu", strconv.Itoa(caseCPU))
				ef, _ := os.Create(errf)
				cmd.Stderr = ef
				cmd.Stdout = ef
				cmd.Env = append(os.Environ(), "GOMAXPROCS="+gomaxprocs(id, sh.Kind), "GOTRACEBACK=all")
				if *covdir != "" {
					cmd.Env = append(cmd.Env, "GOCOVERDIR="+*covdir)
				}
				if os.Getenv("VERIF_RACE") == "1" {
					cmd.Env = append(cmd.Env, "GORACE=halt_on_error=0 log_path="+filepath.Join(work, fmt.Sprintf("race-%d-%d", si, attempt)))
				}
				done := make(chan error, 1)
				if err := cmd.Start(); err != nil {
					ef.Close()
					mu.Lock()
					inconclusive = append(inconclusive, "cannot start worker: "+err.Error())
					mu.Unlock()
					return
				}
				go func() { done <- cmd.Wait() }()
				var werr error
				timedOut := false
				select {
				case werr = <-done:
				case <-time.After(wallLimit):
					timedOut = true
					cmd.Process.Signal(syscall.SIGQUIT)
					select {
					case werr = <-done:
					case <-time.After(10 * time.Second):
						cmd.Process.Kill()
						werr = <-done
					}
				}
				ef.Close()
				var wo workerOut
				if b, err := os.ReadFile(outf); err == nil {
					json.Unmarshal(b, &wo)
				}
				if wo.Done {
					mu.Lock()
					if wo.Stats.FP == nil {
						wo.Stats.FP = map[uint64]struct{}{}
					}
					for _, k := range wo.FP {
						wo.Stats.FP[k] = struct{}{}
					}
					total.Merge(wo.Stats, 6)
					viols = append(viols, wo.Violations...)
					for i := range wo.Violations {
						if kf.match(&wo.Violations[i]) == nil {
							unknownCount++
						}
					}
					if unknownCount >= 40 {
						stop.Store(true)
					}
					mu.Unlock()
					os.Remove(jf)
					if fi, err := os.Stat(errf); err == nil && fi.Size() == 0 {
						os.Remove(errf)
					}
					return
				}
				// the worker died: find the unfinished case
				idx, started := readJournal(jf)
				if timedOut {
					mu.Lock()
					inconclusive = append(inconclusive, fmt.Sprintf("wall-clock watchdog fired for shard %s[%d,%d) at case %d", sh.Kind, lo, sh.Hi, idx))
					mu.Unlock()
					return
				}
				if !started {
					mu.Lock()
					inconclusive = append(inconclusive, fmt.Sprintf("worker for shard %s[%d,%d) died before its first case: %v (see %s)", sh.Kind, lo, sh.Hi, werr, errf))
					mu.Unlock()
					return
				}
				var c core.Case
				if func() (bad bool) {
					defer func() {
						if r := recover(); r != nil {
							bad = true
						}
					}()
					c = p.Gen(sh.Kind, idx, *seed, *tier)
					return false
				}() {
					mu.Lock()
					inconclusive = append(inconclusive, fmt.Sprintf("harness error: case generator panics for %s[%d] (see %s)", sh.Kind, idx, errf))
					mu.Unlock()
					return
				}
				class, msg := classifyDeath(cmd, werr, errf, cpuLimit)
				if hung(jf) {
					class, msg = "no-progress", fmt.Sprintf("the case consumed more than %d s of CPU time without returning (the other cases of this shard need milliseconds): a call does not terminate", caseCPU)
				}
				v := core.V(&c, class, "%s", msg)
				v.Replay = writeReplay(work, &v)
				mu.Lock()
				viols = append(viols, v)
				total.Evaluations += idx - lo + 1
				total.Inc("worker_deaths")
				mu.Unlock()
				if deaths.Add(1) >= 3 {
					stop.Store(true)
				}
				lo = idx + 1
			}
		}(si, sh)
	}
	wg.Wait()

	// race detector reports (C13)
	raceReports := 0
	if os.Getenv("VERIF_RACE") == "1" {
		logs, _ := filepath.Glob(filepath.Join(work, "race-*"))
		for _, l := range logs {
			b, _ := os.ReadFile(l)
			n := strings.Count(string(b), "WARNING: DATA RACE")
			raceReports += n
			if n > 0 {
				c := core.Case{Prop: id, Kind: "race-report", Tier: *tier, Seed: *seed}
				v := core.V(&c, "data-race", "%d race report(s), first:\n%s", n, firstLines(string(b), 40))
				v.Replay = l
				viols = append(viols, v)
			}
		}
		total.Counters["race_detector_reports"] = int64(raceReports)
	}

	// ---- verdict ----------------------------------------------------------
	knownSeen := map[string]*knownEntry{}
	var unknown []core.Violation
	for i := range viols {
		if e := kf.match(&viols[i]); e != nil {
			knownSeen[e.ID] = e
			continue
		}
		unknown = append(unknown, viols[i])
	}
	for _, name := range p.Mandatory(*tier) {
		if total.Counters[name] == 0 {
			inconclusive = append(inconclusive, "mandatory event never observed: "+name)
		}
	}
	notObserved := []string{}
	for _, name := range p.Expected(*tier) {
		if total.Counters[name] == 0 {
			notObserved = append(notObserved, name)
		}
	}
	inconclusive = append(inconclusive, total.Inconclusive...)

	cov := map[string]any{
		"evaluations":          total.Evaluations,
		"distinct_nontrivial":  len(total.FP),
		"rule":                 p.Rule(),
		"samples":              rawSamples(total.Samples),
		"counters":             total.Counters,
		"transition_table":     total.Transitions,
		"distinct_transitions": len(total.Transitions),
		"not_observed":         notObserved,
		"shards":               len(shards),
		"most_expensive_case":  map[string]any{"cpu_ms": total.MaxCaseCPUms, "kind": total.MaxCaseKind, "idx": total.MaxCaseIdx, "per_case_cpu_budget_s": kindCPU(total.MaxCaseKind), "per_kind": kindTable(kindBudgets, total.MaxKindCPUms)},
		"exhaustive":           exhaustive,
	}
	if len(inconclusive) > 0 {
		cov["inconclusive"] = inconclusive
	}
	if n := skipped.Load(); n > 0 {
		cov["shards_skipped_after_violations"] = n
	}
	if fc := os.Getenv("VERIF_FUNC_COVERAGE_FILE"); fc != "" {
		cov["function_coverage_file"] = fc
	}
	if len(knownSeen) > 0 {
		var ks []string
		for k := range knownSeen {
			ks = append(ks, k)
		}
		sort.Strings(ks)
		cov["known_findings_observed"] = ks
	}
	ev := evidence{PropertyID: id, Tier: *tier, Seed: *seed, Level: p.Level(),
		Coverage: cov, Assumptions: p.Assumptions(),
		WallS: time.Since(start).Seconds(), Violations: len(unknown)}
	evb, _ := json.MarshalIndent(ev, "", " ")
	evdir := filepath.Join(verifDir(), "evidence")
	os.MkdirAll(evdir, 0o755)
	// the coverage post-processing of ./check may amend this file
	os.WriteFile(filepath.Join(evdir, id+".json"), evb, 0o644)

	w := bufio.NewWriter(os.Stdout)
	defer w.Flush()
	fmt.Fprintf(w, "%s %s seed=%d: %d cases, %d distinct non-trivial, %d transitions kinds, %.1fs\n",
		id, *tier, *seed, total.Evaluations, len(total.FP), len(total.Transitions), time.Since(start).Seconds())
	var ks []string
	for k := range knownSeen {
		ks = append(ks, k)
	}
	sort.Strings(ks)
	for _, k := range ks {
		e := knownSeen[k]
		fmt.Fprintf(w, "KNOWN-FINDING: property=%s %s\n", e.Property, e.What)
	}
	if len(unknown) > 0 {
		sort.Slice(unknown, func(i, j int) bool {
			if unknown[i].Case.Kind != unknown[j].Case.Kind {
				return unknown[i].Case.Kind < unknown[j].Case.Kind
			}
			return unknown[i].Case.Idx < unknown[j].Case.Idx
		})
		for i, v := range unknown {
			if i >= 12 {
				fmt.Fprintf(w, "... and %d more violations\n", len(unknown)-i)
				break
			}
			fmt.Fprintf(w, "VIOLATION property=%s replay=%s\n", v.Prop, v.Replay)
			fmt.Fprintf(w, "  class=%s kind=%s idx=%d: %s\n", v.Class, v.Case.Kind, v.Case.Idx, firstLines(v.Msg, 12))
		}
		return 1
	}
	if len(inconclusive) > 0 {
		for _, s := range inconclusive {
			fmt.Fprintf(w, "INCONCLUSIVE property=%s reason=%s\n", id, s)
		}
		return 2
	}
	return 0
}

func gomaxprocs(id, kind string) string {
	if id == "C13" || kind == "overlap" {
		return "8"
	}
	return "1"
}

func rawSamples(s []json.RawMessage) []json.RawMessage {
	if s == nil {
		return []json.RawMessage{}
	}
	return s
}

func firstLines(s string, n int) string {
	lines := strings.Split(s, "\n")
	if len(lines) > n {
		lines = append(lines[:n], "...")
	}
	return strings.Join(lines, "\n  ")
}

func hung(name string) bool {
	b, err := os.ReadFile(name)
	return err == nil && len(b) > 0 && b[0] == 'H'
}

func readJournal(name string) (idx int64, started bool) {
	b, err := os.ReadFile(name)
	if err != nil || len(b) < 3 {
		return 0, false
	}
	f := strings.Fields(string(b))
	if len(f) < 2 {
		return 0, false
	}
	v, err := strconv.ParseInt(f[1], 10, 64)
	if err != nil {
		return 0, false
	}
	if f[0] == "D" {
		// died between two cases: attribute to the next one is not possible
		return v, true
	}
	return v, true
}

// classifyDeath turns the exit status of a dead worker into a violation class.
func classifyDeath(cmd *exec.Cmd, werr error, errf string, cpuLimit uint64) (class, msg string) {
	tail := ""
	if b, err := os.ReadFile(errf); err == nil {
		s := string(b)
		if len(s) > 3000 {
			s = s[:3000]
		}
		tail = s
	}
	ps := cmd.ProcessState
	cpu := 0.0
	if ps != nil {
		cpu = ps.UserTime().Seconds() + ps.SystemTime().Seconds()
	}
	if ps != nil {
		if ws, ok := ps.Sys().(syscall.WaitStatus); ok && ws.Signaled() {
			sig := ws.Signal()
			if (sig == syscall.SIGKILL || sig == syscall.SIGXCPU) && cpu >= float64(cpuLimit)-1 {
				return "no-progress", fmt.Sprintf("worker exhausted its CPU budget of %d s inside one case (signal %v, cpu %.1fs): the call does not return", cpuLimit, sig, cpu)
			}
			if sig == syscall.SIGKILL {
				return "killed", fmt.Sprintf("worker killed (signal %v) after %.1fs CPU, probably memory exhaustion\n%s", sig, cpu, tail)
			}
			return "fatal", fmt.Sprintf("worker died by signal %v\n%s", sig, tail)
		}
	}
	return "fatal", fmt.Sprintf("worker exited abnormally (%v) inside a case: process-fatal runtime error\n%s", werr, tail)
}
