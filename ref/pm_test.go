package ref
import ("testing";"math/rand";"bytes")
func TestPM(t *testing.T){
 r:=rand.New(rand.NewSource(1))
 for it:=0;it<3000;it++{
  n:=1+r.Intn(120); al:=1+r.Intn(3)
  b:=make([]byte,n); for i:=range b{b[i]=byte('a'+r.Intn(al))}
  if r.Intn(3)==0 { p:=1+r.Intn(5); for i:=p;i<n;i++{b[i]=b[i-p]} }
  sa:=DoublingSA(b); na:=NaiveSA(b)
  for i:=range sa{ if sa[i]!=na[i]{t.Fatalf("sa %q",b)}}
  pm:=NewPrevMatcher(b)
  for pos:=0;pos<n;pos++{
    best,_:=LongestPrev(b,0,pos,n)
    g,src:=pm.Longest(pos)
    if g!=best{t.Fatalf("%q pos %d got %d want %d",b,pos,g,best)}
    if g>0 && (src<0||src>=pos||!bytes.Equal(b[src:src+g],b[pos:pos+g])){t.Fatalf("src")}
  }
 }
}

func TestOptimalCostIndexed(t *testing.T) {
	r := rand.New(rand.NewSource(2))
	cost := func(m, o uint32) uint64 { return 6 + uint64(m%5) + uint64(o/7) }
	for it := 0; it < 3000; it++ {
		n := 1 + r.Intn(80)
		al := 1 + r.Intn(4)
		b := make([]byte, n)
		for i := range b {
			b[i] = byte('a' + r.Intn(al))
		}
		lo := r.Intn(n)
		start := lo + r.Intn(n-lo)
		end := start + r.Intn(n-start+1)
		minM := 1 + r.Intn(4)
		maxM := minM + r.Intn(10)
		w := 1 + r.Intn(40)
		a := OptimalCost(b, lo, start, end, minM, maxM, w, cost, 9)
		c := OptimalCostIndexed(b, lo, start, end, minM, maxM, w, cost, 9)
		if a != c {
			t.Fatalf("%q lo=%d [%d,%d) min=%d max=%d w=%d: %d vs %d", b, lo, start, end, minM, maxM, w, a, c)
		}
	}
}
