// Package ref contains the independent reference models the monitors compare
// the library against. They are deliberately naive.
package ref

import (
	"bytes"
	"fmt"
	"sort"

	"github.com/ulikunitz/lz"
)

// Expand appends the plain LZ77 expansion of a block to dst: per sequence
// LitLen literals, then MatchLen bytes copied one at a time from Offset bytes
// back; finally the remaining literals. It fails if a sequence cannot be
// executed.
func Expand(dst []byte, seqs []lz.Seq, lits []byte) ([]byte, error) {
	for i, s := range seqs {
		if int64(s.LitLen) > int64(len(lits)) {
			return dst, fmt.Errorf("sequence %d: LitLen %d > %d remaining literals", i, s.LitLen, len(lits))
		}
		dst = append(dst, lits[:s.LitLen]...)
		lits = lits[s.LitLen:]
		if s.MatchLen == 0 {
			continue
		}
		if s.Offset == 0 || int64(s.Offset) > int64(len(dst)) {
			return dst, fmt.Errorf("sequence %d: Offset %d with %d bytes before the match", i, s.Offset, len(dst))
		}
		for k := uint32(0); k < s.MatchLen; k++ {
			dst = append(dst, dst[len(dst)-int(s.Offset)])
		}
	}
	return append(dst, lits...), nil
}

// SumLit returns the sum of the LitLen values and the sum of the MatchLen
// values of the sequences.
func SumLit(seqs []lz.Seq) (lit, match int64) {
	for _, s := range seqs {
		lit += int64(s.LitLen)
		match += int64(s.MatchLen)
	}
	return
}

// LCP is the naive longest common prefix length.
func LCP(a, b []byte) int {
	n := 0
	for n < len(a) && n < len(b) && a[n] == b[n] {
		n++
	}
	return n
}

// LongestPrev returns the length of the longest match for data[pos:end]
// against sources data[src:], lo <= src < pos (sources may overlap pos), and
// the nearest source that attains it.
func LongestPrev(data []byte, lo, pos, end int) (best, src int) {
	src = -1
	for s := pos - 1; s >= lo; s-- {
		l := 0
		for pos+l < end && data[s+l] == data[pos+l] {
			l++
		}
		if l > best {
			best, src = l, s
		}
	}
	return
}

// OptimalCost computes the minimum cost of an LZ77 parse of data[start:end]
// where sources are positions lo <= src < pos with pos-src <= window and match
// lengths are in [minM, maxM]; a literal costs litCost, a match cost(m, o).
func OptimalCost(data []byte, lo, start, end, minM, maxM, window int,
	cost func(m, o uint32) uint64, litCost uint64) uint64 {
	n := end - start
	const inf = ^uint64(0)
	d := make([]uint64, n+1)
	for i := 1; i <= n; i++ {
		d[i] = inf
	}
	for i := 0; i < n; i++ {
		if d[i] == inf {
			continue
		}
		if c := d[i] + litCost; c < d[i+1] {
			d[i+1] = c
		}
		pos := start + i
		for src := pos - 1; src >= lo && pos-src <= window; src-- {
			l := 0
			for pos+l < end && l < maxM && data[src+l] == data[pos+l] {
				l++
			}
			o := uint32(pos - src)
			for m := minM; m <= l; m++ {
				if c := d[i] + cost(uint32(m), o); c < d[i+m] {
					d[i+m] = c
				}
			}
		}
	}
	return d[n]
}

// NaiveSA sorts the suffixes of t by direct comparison.
func NaiveSA(t []byte) []int32 {
	sa := make([]int32, len(t))
	for i := range sa {
		sa[i] = int32(i)
	}
	sort.Slice(sa, func(i, j int) bool {
		return bytes.Compare(t[sa[i]:], t[sa[j]:]) < 0
	})
	return sa
}

// CheckSA decides in linear time whether sa is the suffix array of t. It
// returns "" or a description of the first defect.
func CheckSA(t []byte, sa []int32) string {
	n := len(t)
	if len(sa) != n {
		return fmt.Sprintf("len(sa)=%d != len(t)=%d", len(sa), n)
	}
	rank := make([]int32, n+1)
	for i := range rank {
		rank[i] = -2
	}
	for i, s := range sa {
		if s < 0 || int(s) >= n {
			return fmt.Sprintf("sa[%d]=%d out of range", i, s)
		}
		if rank[s] != -2 {
			return fmt.Sprintf("sa[%d]=%d occurs twice", i, s)
		}
		rank[s] = int32(i)
	}
	rank[n] = -1 // the empty suffix is the smallest
	for i := 1; i < n; i++ {
		a, b := sa[i-1], sa[i]
		switch {
		case t[a] < t[b]:
		case t[a] > t[b]:
			return fmt.Sprintf("sa[%d]=%d > sa[%d]=%d by first byte", i-1, a, i, b)
		default:
			if !(rank[a+1] < rank[b+1]) {
				return fmt.Sprintf("suffixes sa[%d]=%d, sa[%d]=%d out of order", i-1, a, i, b)
			}
		}
	}
	return ""
}

// Kasai computes the LCP table of t for the (correct) suffix array sa.
func Kasai(t []byte, sa []int32) []int32 {
	n := len(t)
	rank := make([]int32, n)
	for i, s := range sa {
		rank[s] = int32(i)
	}
	lcp := make([]int32, n)
	h := 0
	for i := 0; i < n; i++ {
		r := rank[i]
		if r == 0 {
			h = 0
			continue
		}
		j := int(sa[r-1])
		for i+h < n && j+h < n && t[i+h] == t[j+h] {
			h++
		}
		lcp[r] = int32(h)
		if h > 0 {
			h--
		}
	}
	return lcp
}

// NaiveLCPTable computes lcp[i] = |lcp(t[sa[i-1]:], t[sa[i]:])| directly.
func NaiveLCPTable(t []byte, sa []int32) []int32 {
	lcp := make([]int32, len(sa))
	for i := 1; i < len(sa); i++ {
		lcp[i] = int32(LCP(t[sa[i-1]:], t[sa[i]:]))
	}
	return lcp
}

// TwoNeighbourLiterals is the reference for the documented method of the
// greedy suffix array parser, used only to delimit a recorded finding: for
// every position i of the block [s,e) of the text t (the buffer contents that
// were sorted), not covered by an earlier match, take the nearest smaller and
// the nearest larger suffix among the positions < i, prefer the longer match
// (clipped at the block end) and the later position on equal length, and
// accept it if it has at least minMatch bytes and an offset below window. It
// returns the number of bytes that method emits as literals.
func TwoNeighbourLiterals(t []byte, s, e, minMatch, window int) int {
	sa := NaiveSA(t)
	rank := make([]int, len(t))
	for r, p := range sa {
		rank[p] = r
	}
	lits := 0
	for i := s; i < e; {
		ri := rank[i]
		pred, succ := -1, -1
		for j := 0; j < i; j++ {
			rj := rank[j]
			if rj < ri && (pred < 0 || rj > rank[pred]) {
				pred = j
			}
			if rj > ri && (succ < 0 || rj < rank[succ]) {
				succ = j
			}
		}
		f, m := 0, 0
		if pred >= 0 {
			f, m = pred, LCP(t[pred:e], t[i:e])
		}
		if succ >= 0 {
			if m2 := LCP(t[succ:e], t[i:e]); m2 > m || (m2 == m && succ > f) {
				f, m = succ, m2
			}
		}
		o := i - f
		if m < minMatch || !(0 < o && o < window) {
			lits++
			i++
			continue
		}
		i += m
	}
	return lits
}

// DoublingSA computes the suffix array by prefix doubling (O(n log^2 n)),
// independent of the library and of the text's repetitiveness.
func DoublingSA(t []byte) []int32 {
	n := len(t)
	sa := make([]int32, n)
	rank := make([]int32, n)
	tmp := make([]int32, n)
	for i := range sa {
		sa[i] = int32(i)
		rank[i] = int32(t[i])
	}
	for k := 1; ; k <<= 1 {
		key := func(i int32) (int32, int32) {
			b := int32(-1)
			if int(i)+k < n {
				b = rank[int(i)+k]
			}
			return rank[i], b
		}
		sort.Slice(sa, func(x, y int) bool {
			a1, a2 := key(sa[x])
			b1, b2 := key(sa[y])
			if a1 != b1 {
				return a1 < b1
			}
			return a2 < b2
		})
		if n == 0 {
			return sa
		}
		tmp[sa[0]] = 0
		for i := 1; i < n; i++ {
			a1, a2 := key(sa[i-1])
			b1, b2 := key(sa[i])
			tmp[sa[i]] = tmp[sa[i-1]]
			if a1 != b1 || a2 != b2 {
				tmp[sa[i]]++
			}
		}
		copy(rank, tmp)
		if int(rank[sa[n-1]]) == n-1 || k > n {
			return sa
		}
	}
}

// PrevMatcher answers longest-previous-match queries on a fixed text through
// its suffix array and LCP table: the longest common prefix of t[pos:] with any
// t[src:], src < pos (matches may overlap pos and end at the end of t).
type PrevMatcher struct {
	t    []byte
	sa   []int32
	rank []int32
	lcp  []int32
}

// NewPrevMatcher prepares t.
func NewPrevMatcher(t []byte) *PrevMatcher {
	m := &PrevMatcher{t: t, sa: DoublingSA(t)}
	m.rank = make([]int32, len(t))
	for r, p := range m.sa {
		m.rank[p] = int32(r)
	}
	m.lcp = Kasai(t, m.sa)
	return m
}

// Longest returns the length of the longest previous match at pos and the
// nearest source among those of that length found by the two scans (-1: none).
func (m *PrevMatcher) Longest(pos int) (best, src int) {
	src = -1
	r := int(m.rank[pos])
	// towards smaller suffixes
	h := int32(1 << 30)
	for q := r; q > 0; q-- {
		if m.lcp[q] < h {
			h = m.lcp[q]
		}
		if int(h) <= best {
			break
		}
		if int(m.sa[q-1]) < pos {
			best, src = int(h), int(m.sa[q-1])
			break
		}
	}
	h = 1 << 30
	for q := r + 1; q < len(m.sa); q++ {
		if m.lcp[q] < h {
			h = m.lcp[q]
		}
		if int(h) <= best {
			break
		}
		if int(m.sa[q]) < pos {
			best, src = int(h), int(m.sa[q])
			break
		}
	}
	return best, src
}

// OptimalCostIndexed is OptimalCost for large windows on data with few
// repeats: the sources of a position are found through an index of the
// minM-byte strings (minM <= 8) instead of scanning the whole window. The
// result is the same minimum over the same set of parses.
func OptimalCostIndexed(data []byte, lo, start, end, minM, maxM, window int,
	cost func(m, o uint32) uint64, litCost uint64) uint64 {
	if minM < 1 || minM > 8 {
		return OptimalCost(data, lo, start, end, minM, maxM, window, cost, litCost)
	}
	key := func(p int) uint64 {
		var k uint64
		for i := 0; i < minM; i++ {
			k = k<<8 | uint64(data[p+i])
		}
		return k
	}
	from := start - window
	if from < lo {
		from = lo
	}
	idx := map[uint64][]int32{}
	for p := from; p+minM <= end; p++ {
		k := key(p)
		idx[k] = append(idx[k], int32(p))
	}
	n := end - start
	const inf = ^uint64(0)
	d := make([]uint64, n+1)
	for i := 1; i <= n; i++ {
		d[i] = inf
	}
	for i := 0; i < n; i++ {
		if d[i] == inf {
			continue
		}
		if c := d[i] + litCost; c < d[i+1] {
			d[i+1] = c
		}
		pos := start + i
		if pos+minM > end {
			continue
		}
		for _, s := range idx[key(pos)] {
			src := int(s)
			if src >= pos {
				break
			}
			if pos-src > window {
				continue
			}
			l := 0
			for pos+l < end && l < maxM && data[src+l] == data[pos+l] {
				l++
			}
			o := uint32(pos - src)
			for m := minM; m <= l; m++ {
				if c := d[i] + cost(uint32(m), o); c < d[i+m] {
					d[i+m] = c
				}
			}
		}
	}
	return d[n]
}
