package ref

// DecModel is the byte-list model of a decoder: the complete output stream
// since the last reset and the number of bytes already handed out.
type DecModel struct {
	Out     []byte
	ReadPos int
}

// Reset empties the model.
func (m *DecModel) Reset() { m.Out = m.Out[:0]; m.ReadPos = 0 }

// Unread returns the bytes written but not handed out.
func (m *DecModel) Unread() []byte { return m.Out[m.ReadPos:] }

// AppendMatch appends a match; the caller has checked validity.
func (m *DecModel) AppendMatch(ml, off uint32) {
	for k := uint32(0); k < ml; k++ {
		m.Out = append(m.Out, m.Out[len(m.Out)-int(off)])
	}
}
