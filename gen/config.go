package gen

import (
	"fmt"
	"math"
	"math/rand"

	"github.com/ulikunitz/lz"
)

// ParserTypes lists the seven parser types.
var ParserTypes = []string{"HP", "BHP", "DHP", "BDHP", "BUP", "GSAP", "OSAP"}

// Cfg is the harness' own, lz-independent description of a parser
// configuration; it is what replay files contain.
type Cfg struct {
	Type        string `json:"type"`
	ShrinkSize  int    `json:"shrink,omitempty"`
	BufferSize  int    `json:"buffer,omitempty"`
	WindowSize  int    `json:"window,omitempty"`
	BlockSize   int    `json:"block,omitempty"`
	InputLen    int    `json:"il,omitempty"`
	HashBits    int    `json:"hb,omitempty"`
	InputLen1   int    `json:"il1,omitempty"`
	HashBits1   int    `json:"hb1,omitempty"`
	InputLen2   int    `json:"il2,omitempty"`
	HashBits2   int    `json:"hb2,omitempty"`
	MinMatchLen int    `json:"minm,omitempty"`
	MaxMatchLen int    `json:"maxm,omitempty"`
	BucketSize  int    `json:"bucket,omitempty"`
	Cost        string `json:"cost,omitempty"`
}

// Lz builds the library's configuration value by plain field assignment.
func (c Cfg) Lz() lz.ParserConfig {
	switch c.Type {
	case "HP":
		return &lz.HPConfig{ShrinkSize: c.ShrinkSize, BufferSize: c.BufferSize,
			WindowSize: c.WindowSize, BlockSize: c.BlockSize,
			InputLen: c.InputLen, HashBits: c.HashBits}
	case "BHP":
		return &lz.BHPConfig{ShrinkSize: c.ShrinkSize, BufferSize: c.BufferSize,
			WindowSize: c.WindowSize, BlockSize: c.BlockSize,
			InputLen: c.InputLen, HashBits: c.HashBits}
	case "DHP":
		return &lz.DHPConfig{ShrinkSize: c.ShrinkSize, BufferSize: c.BufferSize,
			WindowSize: c.WindowSize, BlockSize: c.BlockSize,
			InputLen1: c.InputLen1, HashBits1: c.HashBits1,
			InputLen2: c.InputLen2, HashBits2: c.HashBits2}
	case "BDHP":
		return &lz.BDHPConfig{ShrinkSize: c.ShrinkSize, BufferSize: c.BufferSize,
			WindowSize: c.WindowSize, BlockSize: c.BlockSize,
			InputLen1: c.InputLen1, HashBits1: c.HashBits1,
			InputLen2: c.InputLen2, HashBits2: c.HashBits2}
	case "BUP":
		return &lz.BUPConfig{ShrinkSize: c.ShrinkSize, BufferSize: c.BufferSize,
			WindowSize: c.WindowSize, BlockSize: c.BlockSize,
			InputLen: c.InputLen, HashBits: c.HashBits, BucketSize: c.BucketSize}
	case "GSAP":
		return &lz.GSAPConfig{ShrinkSize: c.ShrinkSize, BufferSize: c.BufferSize,
			WindowSize: c.WindowSize, BlockSize: c.BlockSize,
			MinMatchLen: c.MinMatchLen}
	case "OSAP":
		return &lz.OSAPConfig{ShrinkSize: c.ShrinkSize, BufferSize: c.BufferSize,
			WindowSize: c.WindowSize, BlockSize: c.BlockSize,
			MinMatchLen: c.MinMatchLen, MaxMatchLen: c.MaxMatchLen, Cost: c.Cost}
	}
	panic("unknown parser type " + c.Type)
}

// FromLz converts a library configuration back (by field reads).
func FromLz(pc lz.ParserConfig) Cfg {
	switch x := pc.(type) {
	case *lz.HPConfig:
		return Cfg{Type: "HP", ShrinkSize: x.ShrinkSize, BufferSize: x.BufferSize, WindowSize: x.WindowSize, BlockSize: x.BlockSize, InputLen: x.InputLen, HashBits: x.HashBits}
	case *lz.BHPConfig:
		return Cfg{Type: "BHP", ShrinkSize: x.ShrinkSize, BufferSize: x.BufferSize, WindowSize: x.WindowSize, BlockSize: x.BlockSize, InputLen: x.InputLen, HashBits: x.HashBits}
	case *lz.DHPConfig:
		return Cfg{Type: "DHP", ShrinkSize: x.ShrinkSize, BufferSize: x.BufferSize, WindowSize: x.WindowSize, BlockSize: x.BlockSize, InputLen1: x.InputLen1, HashBits1: x.HashBits1, InputLen2: x.InputLen2, HashBits2: x.HashBits2}
	case *lz.BDHPConfig:
		return Cfg{Type: "BDHP", ShrinkSize: x.ShrinkSize, BufferSize: x.BufferSize, WindowSize: x.WindowSize, BlockSize: x.BlockSize, InputLen1: x.InputLen1, HashBits1: x.HashBits1, InputLen2: x.InputLen2, HashBits2: x.HashBits2}
	case *lz.BUPConfig:
		return Cfg{Type: "BUP", ShrinkSize: x.ShrinkSize, BufferSize: x.BufferSize, WindowSize: x.WindowSize, BlockSize: x.BlockSize, InputLen: x.InputLen, HashBits: x.HashBits, BucketSize: x.BucketSize}
	case *lz.GSAPConfig:
		return Cfg{Type: "GSAP", ShrinkSize: x.ShrinkSize, BufferSize: x.BufferSize, WindowSize: x.WindowSize, BlockSize: x.BlockSize, MinMatchLen: x.MinMatchLen}
	case *lz.OSAPConfig:
		return Cfg{Type: "OSAP", ShrinkSize: x.ShrinkSize, BufferSize: x.BufferSize, WindowSize: x.WindowSize, BlockSize: x.BlockSize, MinMatchLen: x.MinMatchLen, MaxMatchLen: x.MaxMatchLen, Cost: x.Cost}
	}
	panic(fmt.Sprintf("unknown config type %T", pc))
}

// MinMatch returns the minimum match length the parser type guarantees for the
// (defaults-completed) configuration c.
func (c Cfg) MinMatch() int {
	switch c.Type {
	case "HP", "BHP", "BUP":
		return minInt(3, c.InputLen)
	case "DHP", "BDHP":
		return minInt(3, c.InputLen1)
	default:
		return c.MinMatchLen
	}
}

func pick(r *rand.Rand, xs ...int) int { return xs[r.Intn(len(xs))] }

// Opts steers SmallCfg.
type Opts struct {
	// MaxBuf bounds BufferSize (default 333).
	MaxBuf int
	// MinBuf is the least BufferSize (default 1).
	MinBuf int
	// WindowLEBuffer forces WindowSize >= BufferSize (C12 literal clause).
	BufLEWindow bool
	// SmallAlphabetHash prefers long InputLen / few hash bits (collisions).
	FewHashBits bool
	// AllowShrinkEqBuf also generates ShrinkSize == BufferSize (only for
	// the acceptance clause of C16).
	AllowShrinkEqBuf bool
}

// SmallCfg generates a boundary-biased configuration with small sizes such
// that the buffer mechanisms (shrink, re-basing, refill) fire constantly. All
// fields are given explicitly except where a zero (default) is drawn on
// purpose.
func SmallCfg(r *rand.Rand, typ string, o Opts) Cfg {
	if o.MaxBuf == 0 {
		o.MaxBuf = 333
	}
	if o.MinBuf == 0 {
		o.MinBuf = 1
	}
	c := Cfg{Type: typ}
	B := pick(r, 1, 2, 3, 5, 8, 9, 16, 17, 33, 64, 100, 150, 333)
	if r.Intn(3) == 0 {
		B = 1 + r.Intn(o.MaxBuf)
	}
	if B > o.MaxBuf {
		B = o.MaxBuf
	}
	if B < o.MinBuf {
		B = o.MinBuf
	}
	c.BufferSize = B
	switch r.Intn(6) {
	case 0:
		c.ShrinkSize = 0 // default B>>1
	case 1:
		c.ShrinkSize = 1
	case 2:
		c.ShrinkSize = B / 2
	case 3:
		c.ShrinkSize = B - 1
	default:
		c.ShrinkSize = r.Intn(B)
	}
	if c.ShrinkSize >= B {
		c.ShrinkSize = B - 1
	}
	if o.AllowShrinkEqBuf && r.Intn(8) == 0 {
		c.ShrinkSize = B
	}
	W := pick(r, 1, 2, 3, 4, 7, 8, 16, 50, 200, B-1, B, B+1, 2*B, maxInt(1, c.ShrinkSize), maxInt(1, c.ShrinkSize-1), c.ShrinkSize+1)
	if r.Intn(4) == 0 {
		W = 1 + r.Intn(2*B+2)
	}
	if W < 1 {
		W = 1
	}
	if o.BufLEWindow && W < B {
		W = B + r.Intn(3)
	}
	if r.Intn(20) == 0 {
		// legal huge windows (32-bit boundaries; the largest legal value and
		// values just below it: distances computed in 32 bits wrap there)
		W = []int{1<<31 - 1, 1 << 31, 1<<32 - 8, 1<<32 - 8, 1<<32 - 9, 1<<32 - 200, 3 << 30, 1 << 24, 1<<31 + 1}[r.Intn(9)]
		if typ == "GSAP" && W > 1<<31-1 {
			W = 1<<31 - 1
		}
	}
	c.WindowSize = W
	K := pick(r, 1, 2, 3, 5, 8, 16, 32, 33, 40, 200, B, B+1, maxInt(1, B/2), maxInt(1, W), W+1)
	if r.Intn(4) == 0 {
		K = 1 + r.Intn(B+8)
	}
	c.BlockSize = K
	hashBits := func(il int) int {
		max := minInt(8*il, 12)
		if o.FewHashBits || r.Intn(2) == 0 {
			max = minInt(max, 5)
		}
		return 1 + r.Intn(max)
	}
	switch typ {
	case "PB":
	case "HP", "BHP":
		c.InputLen = 2 + r.Intn(7)
		c.HashBits = hashBits(c.InputLen)
	case "BUP":
		c.InputLen = 2 + r.Intn(7)
		c.HashBits = minInt(hashBits(c.InputLen), 8)
		c.BucketSize = pick(r, 1, 2, 3, 10, 128, 1+r.Intn(128))
	case "DHP", "BDHP":
		c.InputLen1 = 2 + r.Intn(6)
		c.InputLen2 = c.InputLen1 + 1 + r.Intn(8-c.InputLen1)
		c.HashBits1 = hashBits(c.InputLen1)
		c.HashBits2 = hashBits(c.InputLen2)
	case "GSAP":
		c.MinMatchLen = pick(r, 2, 2, 3, 3, 4, 8)
		if c.WindowSize < c.MinMatchLen {
			c.WindowSize = c.MinMatchLen + r.Intn(3)
		}
	case "OSAP":
		c.MinMatchLen = pick(r, 2, 2, 3, 3, 4, 8)
		c.MaxMatchLen = pick(r, c.MinMatchLen, c.MinMatchLen+1, c.MinMatchLen+5, 16, 273, 1000)
		if c.MaxMatchLen < c.MinMatchLen {
			c.MaxMatchLen = c.MinMatchLen
		}
		if r.Intn(4) == 0 {
			c.Cost = "XZCost"
		}
		switch r.Intn(40) {
		case 0: // "no limit"
			c.MaxMatchLen = []int{math.MaxInt64, 1 << 31, 1<<32 + 5, 1<<32 + 16, 1<<31 - 1}[r.Intn(5)]
		case 1: // a minimum nothing can reach: only literals may be emitted
			c.MinMatchLen = []int{1<<32 + 2, 1<<32 + 3, 1<<33 + 4, 1 << 31}[r.Intn(4)]
			c.MaxMatchLen = []int{c.MinMatchLen, math.MaxInt64}[r.Intn(2)]
		}
	}
	return c
}

// Hint derives the generator hint from a configuration.
func (c Cfg) Hint() Hint {
	h := Hint{Window: c.WindowSize, Buffer: c.BufferSize, Block: c.BlockSize,
		MinMatch: c.MinMatchLen, MaxMatch: c.MaxMatchLen}
	if h.MinMatch == 0 {
		h.MinMatch = 3
	}
	return h
}

// TameBig bounds the parameters whose cost grows with the product of buffer
// size and parameter value (OSAP scans every shared-prefix length up to
// MaxMatchLen: with "no limit" a run of 64 Ki equal bytes costs minutes of
// legitimate work) for cases with large buffers. Small buffers keep the
// extreme values.
func (c *Cfg) TameBig() {
	if c.Type == "OSAP" && (c.BufferSize == 0 || c.BufferSize > 20000) {
		if c.MinMatchLen > 16 {
			c.MinMatchLen = 3
		}
		if c.MaxMatchLen > 1000 {
			c.MaxMatchLen = 273
		}
		if c.MaxMatchLen != 0 && c.MaxMatchLen < c.MinMatchLen {
			c.MaxMatchLen = c.MinMatchLen
		}
	}
}
