package gen

import (
	"bytes"
	"math/rand"
)

// Streams for the scale kinds: inputs whose point is a size or a count (more
// than 64 Ki sequences in a block, more than 64 KiB without a match, matches
// longer than 64 KiB, megabytes between two Shrink calls).

// UniqueTrigrams returns n bytes in which no string of three bytes occurs
// twice: a de Bruijn sequence B(k, 3) over k byte values chosen at random
// (none of the bytes in avoid). n is clipped to k*k*k.
func UniqueTrigrams(r *rand.Rand, k, n int, avoid ...byte) []byte {
	if k < 2 {
		k = 2
	}
	if k > 256-len(avoid) {
		k = 256 - len(avoid)
	}
	w := deBruijn(k, 3)
	if n > len(w) {
		n = len(w)
	}
	perm := r.Perm(256)
	var alpha []byte
	for _, x := range perm {
		if bytes.IndexByte(avoid, byte(x)) < 0 && len(alpha) < k {
			alpha = append(alpha, byte(x))
		}
	}
	s := r.Intn(len(w) - n + 1)
	b := make([]byte, n)
	for i := range b {
		b[i] = alpha[w[s+i]]
	}
	return b
}

// Records returns nrec records: a word of wl bytes from a dictionary of dict
// words followed by a scrambled counter of cl bytes. Parsers turn every
// record into one short match plus literals: a block of n bytes carries about
// n/(wl+cl) sequences.
func Records(r *rand.Rand, nrec, dict, wl, cl int) []byte {
	words := make([][]byte, dict)
	for i := range words {
		words[i] = make([]byte, wl)
		for j := range words[i] {
			words[i][j] = 'a' + byte(r.Intn(26))
		}
	}
	mul := uint32(r.Intn(1<<20))*2 + 0x9e3779b1
	b := make([]byte, 0, nrec*(wl+cl))
	for i := 0; i < nrec; i++ {
		b = append(b, words[r.Intn(dict)]...)
		x := uint32(i) * mul
		for j := 0; j < cl; j++ {
			b = append(b, 0x80|byte(x>>(uint(j)*7+3)))
		}
	}
	return b
}

// PeriodicRun returns n bytes of period p (the period itself is random over
// alpha letters).
func PeriodicRun(r *rand.Rand, p, n, alpha int) []byte {
	b := make([]byte, n)
	for i := range b {
		if i < p {
			b[i] = letter(r, alpha)
		} else {
			b[i] = b[i-p]
		}
	}
	return b
}

// Tandem returns X repeated reps times with X random over alpha letters.
func Tandem(r *rand.Rand, xlen, reps, alpha int) []byte {
	x := make([]byte, xlen)
	for i := range x {
		x[i] = 'a' + byte(r.Intn(alpha))
	}
	b := make([]byte, 0, xlen*reps)
	for i := 0; i < reps; i++ {
		b = append(b, x...)
	}
	return b
}

// DenseNeighbours returns c^(2*bs) z followed by nrec records c^bs x y z with
// x, y, z random letters different from c that sort before the byte that ends
// the head: the suffixes inside the head run have tens of thousands of
// suffixes of later records between them in suffix order.
func DenseNeighbours(r *rand.Rand, c byte, bs, nrec int) []byte {
	b := make([]byte, 0, 2*bs+1+nrec*(bs+3))
	for i := 0; i < 2*bs; i++ {
		b = append(b, c)
	}
	hi := byte(250)
	b = append(b, hi)
	for i := 0; i < nrec; i++ {
		for j := 0; j < bs; j++ {
			b = append(b, c)
		}
		for j := 0; j < 3; j++ {
			// c < x < hi
			b = append(b, c+1+byte(r.Intn(int(hi-c)-1)))
		}
	}
	return b
}
