// Package gen contains the seeded workload generators: byte strings,
// configurations and fault plans.
package gen

import (
	"math/rand"
	"os"
	"path/filepath"
	"sort"
	"sync"
)

// Families lists the byte string families of Bytes.
var Families = []string{"zero", "ff", "run", "tworuns", "periodic", "rand2",
	"rand3", "rand4", "rand16", "rand256", "fib", "thue", "pd", "debruijn",
	"lzsynth", "text", "concat", "runmix"}

var (
	textOnce sync.Once
	textData []byte
)

// RepoDir is the directory of the library under test.
func RepoDir() string {
	if d := os.Getenv("VERIF_REPO"); d != "" {
		return d
	}
	return "/repo"
}

// Text returns realistic text: the Go sources of the library itself.
func Text() []byte {
	textOnce.Do(func() {
		var names []string
		for _, pat := range []string{"*.go", "suffix/*.go"} {
			m, _ := filepath.Glob(filepath.Join(RepoDir(), pat))
			names = append(names, m...)
		}
		sort.Strings(names)
		for _, n := range names {
			b, err := os.ReadFile(n)
			if err == nil {
				textData = append(textData, b...)
			}
		}
		if len(textData) < 1000 {
			for i := 0; i < 4000; i++ {
				textData = append(textData, "the quick brown fox jumps over the lazy dog; "[i%45])
			}
		}
	})
	return textData
}

// Hint carries sizes that generators use to place matches at interesting
// distances.
type Hint struct {
	Window   int
	Buffer   int
	Block    int
	MinMatch int
	MaxMatch int
}

// Family generates n bytes of the named family.
func Family(r *rand.Rand, name string, n int, h Hint) []byte {
	if n <= 0 {
		return []byte{}
	}
	b := make([]byte, n)
	switch name {
	case "zero":
	case "ff":
		for i := range b {
			b[i] = 0xff
		}
	case "run":
		c := byte(r.Intn(256))
		for i := range b {
			b[i] = c
		}
	case "tworuns":
		x, y := byte('a'), byte('b')
		if r.Intn(3) == 0 {
			x, y = byte(r.Intn(256)), byte(r.Intn(256))
		}
		c := x
		for i := 0; i < n; {
			l := 1 + r.Intn(1+r.Intn(40))
			for k := 0; k < l && i < n; k++ {
				b[i] = c
				i++
			}
			if c == x {
				c = y
			} else {
				c = x
			}
		}
	case "periodic":
		p := 1 + r.Intn(minInt(300, n))
		if r.Intn(2) == 0 {
			p = 1 + r.Intn(minInt(8, n))
		}
		alpha := []int{2, 3, 4, 256}[r.Intn(4)]
		for i := 0; i < p; i++ {
			b[i] = letter(r, alpha)
		}
		for i := p; i < n; i++ {
			b[i] = b[i-p]
		}
		for g := r.Intn(4); g > 0; g-- {
			b[r.Intn(n)] ^= byte(1 + r.Intn(255))
		}
	case "rand2", "rand3", "rand4", "rand16", "rand256":
		alpha := map[string]int{"rand2": 2, "rand3": 3, "rand4": 4, "rand16": 16, "rand256": 256}[name]
		for i := range b {
			b[i] = letter(r, alpha)
		}
	case "fib":
		x, y := []byte{'a'}, []byte{'a', 'b'}
		for len(y) < n {
			x, y = y, append(append([]byte{}, y...), x...)
		}
		copy(b, y)
	case "thue":
		for i := range b {
			b[i] = 'a' + byte(popcount(uint(i))&1)
		}
	case "pd":
		// period doubling word: b[i] = parity of the 2-adic valuation of i+1
		for i := range b {
			v := 0
			for k := i + 1; k&1 == 0; k >>= 1 {
				v++
			}
			b[i] = 'a' + byte(v&1)
		}
	case "debruijn":
		k := 2 + r.Intn(3)
		o := 2 + r.Intn(5)
		w := deBruijn(k, o)
		for i := range b {
			b[i] = 'a' + w[i%len(w)]
		}
	case "lzsynth":
		return lzSynth(r, n, h)
	case "text":
		t := Text()
		s := r.Intn(len(t))
		for i := range b {
			b[i] = t[(s+i)%len(t)]
		}
	case "runmix":
		// prefix + c^N + suffix
		c := []byte{0, 1, 'a', 0xff, byte(r.Intn(256))}[r.Intn(5)]
		pre := r.Intn(minInt(n, 20) + 1)
		suf := r.Intn(minInt(n-pre, 20) + 1)
		for i := range b {
			switch {
			case i < pre || i >= n-suf:
				b[i] = byte(r.Intn(256))
			default:
				b[i] = c
			}
		}
	case "concat":
		i := 0
		for i < n {
			l := 1 + r.Intn(n-i)
			f := Families[r.Intn(len(Families)-2)] // not concat itself
			if f == "concat" {
				f = "rand2"
			}
			copy(b[i:], Family(r, f, l, h))
			i += l
		}
	default:
		panic("unknown family " + name)
	}
	return b
}

// translate maps the bytes of b through a random substitution in a quarter of
// the calls, so that every family also occurs over byte values like 0x00
// (which equals the empty hash entry), 0xff and 0x80.
func translate(r *rand.Rand, b []byte) []byte {
	if r.Intn(4) != 0 || len(b) == 0 {
		return b
	}
	special := []byte{0x00, 0xff, 0x01, 0x80, 0x7f, 0xfe, 'a', 0x00}
	var m [256]byte
	for i := range m {
		m[i] = byte(i)
	}
	// the most frequent small-alphabet letters get special values
	perm := r.Perm(len(special))
	for i, c := range []byte{'a', 'b', 'c', 'd'} {
		m[c] = special[perm[i]]
	}
	if r.Intn(2) == 0 {
		m[b[0]] = 0x00
	}
	for i, c := range b {
		b[i] = m[c]
	}
	return b
}

// Bytes picks a family by weight and generates n bytes.
func Bytes(r *rand.Rand, n int, h Hint) (family string, b []byte) {
	family, b = bytesPlain(r, n, h)
	return family, translate(r, b)
}

func bytesPlain(r *rand.Rand, n int, h Hint) (family string, b []byte) {
	w := []struct {
		f string
		w int
	}{{"zero", 3}, {"ff", 1}, {"run", 2}, {"tworuns", 6}, {"periodic", 8},
		{"rand2", 10}, {"rand3", 6}, {"rand4", 4}, {"rand16", 2}, {"rand256", 2},
		{"fib", 2}, {"thue", 2}, {"pd", 1}, {"debruijn", 2}, {"lzsynth", 14},
		{"text", 5}, {"concat", 6}, {"runmix", 3}}
	t := 0
	for _, x := range w {
		t += x.w
	}
	k := r.Intn(t)
	for _, x := range w {
		if k < x.w {
			return x.f, Family(r, x.f, n, h)
		}
		k -= x.w
	}
	panic("unreachable")
}

func letter(r *rand.Rand, alpha int) byte {
	if alpha >= 256 {
		return byte(r.Intn(256))
	}
	return 'a' + byte(r.Intn(alpha))
}

func popcount(x uint) int {
	n := 0
	for ; x != 0; x &= x - 1 {
		n++
	}
	return n
}

func minInt(a, b int) int {
	if a < b {
		return a
	}
	return b
}

func maxInt(a, b int) int {
	if a > b {
		return a
	}
	return b
}

// deBruijn returns a de Bruijn sequence B(k, n) over 0..k-1.
func deBruijn(k, n int) []byte {
	a := make([]int, k*n)
	var seq []byte
	var db func(t, p int)
	db = func(t, p int) {
		if t > n {
			if n%p == 0 {
				for _, x := range a[1 : p+1] {
					seq = append(seq, byte(x))
				}
			}
			return
		}
		a[t] = a[t-p]
		db(t+1, p)
		for j := a[t-p] + 1; j < k; j++ {
			a[t] = j
			db(t+1, t)
		}
	}
	db(1, 1)
	return seq
}

// lzSynth builds a string by random literal / copy steps such that matches
// sit at chosen distances (around the window and buffer size) and have chosen
// lengths (around the minimum / maximum match length and the block size).
func lzSynth(r *rand.Rand, n int, h Hint) []byte {
	b := make([]byte, 0, n)
	alpha := []int{2, 3, 4, 16, 256}[r.Intn(5)]
	dists := []int{1, 2, 3, 4, 7, 8, 9}
	for _, d := range []int{h.Window, h.Buffer, h.Block} {
		if d > 0 {
			dists = append(dists, d-1, d, d+1, d/2)
		}
	}
	lens := []int{1, 2, 3, 4, 5, 7, 8, 9, 15, 16, 17, 31, 32, 33}
	for _, l := range []int{h.MinMatch, h.MaxMatch, h.Block} {
		if l > 0 {
			lens = append(lens, l-1, l, l+1)
		}
	}
	if h.Block > 300 {
		// long repeats (beyond typical "nice length" limits of LZ parsers)
		lens = append(lens, 272, 273, 274, 300, 400, 500, 273, 280)
	}
	for len(b) < n {
		if len(b) == 0 || r.Intn(3) == 0 {
			l := 1 + r.Intn(6)
			for k := 0; k < l && len(b) < n; k++ {
				b = append(b, letter(r, alpha))
			}
			continue
		}
		var d int
		if r.Intn(4) == 0 {
			d = 1 + r.Intn(len(b))
		} else {
			d = dists[r.Intn(len(dists))]
		}
		if d < 1 {
			d = 1
		}
		if d > len(b) {
			d = len(b)
		}
		l := lens[r.Intn(len(lens))]
		if r.Intn(5) == 0 {
			l = 1 + r.Intn(60)
		}
		if l < 1 {
			l = 1
		}
		for k := 0; k < l && len(b) < n; k++ {
			b = append(b, b[len(b)-d])
		}
		// often break the match with a differing byte so that its length
		// is exact
		if r.Intn(2) == 0 && len(b) < n {
			c := b[len(b)-d]
			b = append(b, c^byte(1+r.Intn(3)))
		}
	}
	return b
}
