package probe

import (
	"bytes"
	"fmt"
	"io"
	"testing"
	"time"

	"github.com/ulikunitz/lz"
	"github.com/ulikunitz/lz/suffix"
)

func expand(dst []byte, blk lz.Block) []byte {
	lit := blk.Literals
	for _, s := range blk.Sequences {
		dst = append(dst, lit[:s.LitLen]...)
		lit = lit[s.LitLen:]
		for k := 0; k < int(s.MatchLen); k++ {
			dst = append(dst, dst[len(dst)-int(s.Offset)])
		}
	}
	return append(dst, lit...)
}

// A: Segments left boundary
func TestSegmentsLB(t *testing.T) {
	p := []byte("aaabaaab")
	// try generic: find text where group incomplete
	sa := make([]int32, len(p))
	suffix.Sort(p, sa)
	lcp := make([]int32, len(p))
	suffix.LCP(p, sa, nil, lcp)
	t.Logf("sa=%v lcp=%v", sa, lcp)
	suffix.Segments(sa, lcp, 1, 100, func(m int, seg []int32) {
		t.Logf("m=%d seg=%v", m, seg)
	})
}

func TestSegmentsEmpty(t *testing.T) {
	defer func() { t.Logf("recovered: %v", recover()) }()
	suffix.Segments(nil, nil, 0, 5, func(m int, seg []int32) { t.Logf("m=%d seg=%v", m, seg) })
}

// M: ByteAt at end
func TestByteAtEnd(t *testing.T) {
	defer func() { t.Logf("recovered: %v", recover()) }()
	p, _ := lz.HPConfig{BufferSize: 64, WindowSize: 64, BlockSize: 16}.NewParser()
	p.Write([]byte("hello"))
	c, err := p.ByteAt(5)
	t.Logf("ByteAt(5) = %v %v", c, err)
}

// G: Parse(nil) on DHP / OSAP
func TestParseNil(t *testing.T) {
	cfgs := []lz.ParserConfig{
		&lz.HPConfig{BufferSize: 64, WindowSize: 64, BlockSize: 16},
		&lz.BHPConfig{BufferSize: 64, WindowSize: 64, BlockSize: 16},
		&lz.DHPConfig{BufferSize: 64, WindowSize: 64, BlockSize: 16},
		&lz.BDHPConfig{BufferSize: 64, WindowSize: 64, BlockSize: 16},
		&lz.BUPConfig{BufferSize: 64, WindowSize: 64, BlockSize: 16},
		&lz.GSAPConfig{BufferSize: 64, WindowSize: 64, BlockSize: 16},
		&lz.OSAPConfig{BufferSize: 64, WindowSize: 64, BlockSize: 16},
	}
	for _, c := range cfgs {
		p, err := c.NewParser()
		if err != nil {
			t.Fatal(err)
		}
		p.Write(bytes.Repeat([]byte("abcdefgh"), 5))
		var ns []int
		for i := 0; i < 6; i++ {
			n, err := p.Parse(nil, 0)
			ns = append(ns, n)
			if err != nil {
				ns = append(ns, -1)
				break
			}
		}
		t.Logf("%T: %v", c, ns)
	}
}

// K: ShrinkSize == BufferSize
func TestShrinkEqBuffer(t *testing.T) {
	defer func() { t.Logf("recovered: %v", recover()) }()
	p, err := lz.HPConfig{BufferSize: 16, ShrinkSize: 16, WindowSize: 64, BlockSize: 16}.NewParser()
	if err != nil {
		t.Fatal(err)
	}
	w := lz.Wrap(bytes.NewReader(make([]byte, 100)), p)
	var blk lz.Block
	for {
		n, err := w.Parse(&blk, 0)
		t.Logf("n=%d err=%v", n, err)
		if err != nil {
			break
		}
	}
}

// L: Reset(data with big cap) + ReadFrom
func TestResetBigCap(t *testing.T) {
	defer func() { t.Logf("recovered: %v", recover()) }()
	p, _ := lz.HPConfig{BufferSize: 16, WindowSize: 64, BlockSize: 16}.NewParser()
	data := make([]byte, 8, 200)
	if err := p.Reset(data); err != nil {
		t.Fatal(err)
	}
	n, err := p.ReadFrom(bytes.NewReader(make([]byte, 150)))
	t.Logf("ReadFrom n=%d err=%v", n, err)
	k, err := p.Write([]byte("x"))
	t.Logf("Write k=%d err=%v", k, err)
}

// H: WriteBlock n after shrink
func TestWriteBlockN(t *testing.T) {
	var b lz.DecoderBuffer
	b.Init(lz.DecoderConfig{WindowSize: 4, BufferSize: 12})
	b.Write([]byte("0123456789"))
	buf := make([]byte, 10)
	b.Read(buf)
	n, k, l, err := b.WriteBlock(lz.Block{Literals: []byte("abcd")})
	t.Logf("n=%d k=%d l=%d err=%v off=%d data=%q", n, k, l, err, b.Off, b.Data)
}

type cw struct{ n, calls int }

func (w *cw) Write(p []byte) (int, error) { w.n += len(p); w.calls++; return len(p), nil }

// I: Decoder.Write spin
func TestDecoderWriteSpin(t *testing.T) {
	w := &cw{}
	d, _ := lz.NewDecoder(w, lz.DecoderConfig{WindowSize: 5, BufferSize: 10})
	done := make(chan string, 1)
	go func() {
		d.Write(make([]byte, 8))
		n, err := d.Write(make([]byte, 8))
		done <- fmt.Sprint(n, err)
	}()
	select {
	case s := <-done:
		t.Logf("returned %s", s)
	case <-time.After(2 * time.Second):
		t.Logf("SPIN: Decoder.Write did not return; writer calls=%d", w.calls)
	}
}

// J: errMatchLen on valid long match
func TestLongMatch(t *testing.T) {
	cfg := lz.HPConfig{WindowSize: 16, BufferSize: 4096, BlockSize: 2048}
	p, _ := cfg.NewParser()
	data := bytes.Repeat([]byte("a"), 3000)
	wp := lz.Wrap(bytes.NewReader(data), p)
	var out bytes.Buffer
	d, _ := lz.NewDecoder(&out, lz.DecoderConfig{WindowSize: 16})
	var blk lz.Block
	for {
		_, err := wp.Parse(&blk, 0)
		if err == io.EOF {
			break
		}
		t.Logf("blk seqs=%v lits=%d", blk.Sequences, len(blk.Literals))
		_, _, _, err = d.WriteBlock(blk)
		if err != nil {
			t.Logf("WriteBlock error: %v", err)
			return
		}
	}
	d.Flush()
	t.Logf("ok=%v", bytes.Equal(out.Bytes(), data))
}
