package probe

import (
	"math/rand"
	"testing"

	"github.com/ulikunitz/lz"
)

func TestGSAPDebug(t *testing.T) {
	rnd := rand.New(rand.NewSource(3))
	for it := 0; it < 300; it++ {
		n := 8 + rnd.Intn(12)
		data := make([]byte, n)
		for i := range data {
			data[i] = byte('a' + rnd.Intn(2))
		}
		p, _ := (&lz.GSAPConfig{BufferSize: 512, WindowSize: 512, BlockSize: 512, MinMatchLen: 3}).NewParser()
		p.Write(data)
		var blk lz.Block
		p.Parse(&blk, 0)
		pos := 0
		bad := -1
		for _, s := range blk.Sequences {
			for k := 0; k < int(s.LitLen); k++ {
				if lpm(data, pos, n) >= 3 && bad < 0 {
					bad = pos
				}
				pos++
			}
			if lpm(data, pos, n) != int(s.MatchLen) && bad < 0 {
				bad = pos
			}
			pos += int(s.MatchLen)
		}
		for ; pos < n; pos++ {
			if lpm(data, pos, n) >= 3 && bad < 0 {
				bad = pos
			}
		}
		if bad >= 0 {
			t.Logf("%q bad at %d (lpm=%d): seqs=%v lits=%q", data, bad, lpm(data, bad, n), blk.Sequences, blk.Literals)
			return
		}
	}
}
