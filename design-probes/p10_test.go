package probe

import (
	"bytes"
	"fmt"
	"math/rand"
	"testing"

	"github.com/ulikunitz/lz"
)

func TestDecoderFaults(t *testing.T) {
	bad := map[string]int{}
	first := map[string]string{}
	spins := 0
	for seed := 0; seed < 20000; seed++ {
		r := rand.New(rand.NewSource(int64(seed)))
		W := 1 + r.Intn(10)
		B := W + 1 + r.Intn(2*W+4)
		free := B - W
		w := &fw{r: r, faultProb: 1 + r.Intn(6)}
		if r.Intn(3) == 0 {
			w.faultProb = 0
		}
		d, err := lz.NewDecoder(w, lz.DecoderConfig{WindowSize: W, BufferSize: B})
		if err != nil {
			t.Fatal(err)
		}
		var ref []byte
		var oplog []string
		report := func(k string) {
			bad[k]++
			if first[k] == "" {
				first[k] = fmt.Sprintf("seed=%d W=%d B=%d ops=%v", seed, W, B, oplog)
			}
		}
		func() {
			defer func() {
				if e := recover(); e != nil {
					if _, ok := e.(sentinel); ok {
						spins++
						report("spin")
						return
					}
					report(fmt.Sprint("panic ", e))
				}
			}()
			for op := 0; op < 30; op++ {
				// build valid block with items <= free
				var blk lz.Block
				tmp := append([]byte{}, ref...)
				ns := r.Intn(4)
				for i := 0; i < ns; i++ {
					ll := r.Intn(free + 1)
					lit := make([]byte, ll)
					for j := range lit {
						lit[j] = byte('a' + r.Intn(3))
					}
					tmp = append(tmp, lit...)
					wn := len(tmp)
					if wn > W {
						wn = W
					}
					s := lz.Seq{LitLen: uint32(ll)}
					if wn > 0 && free-ll > 0 {
						s.Offset = uint32(1 + r.Intn(wn))
						s.MatchLen = uint32(r.Intn(free - ll + 1))
						for k := 0; k < int(s.MatchLen); k++ {
							tmp = append(tmp, tmp[len(tmp)-int(s.Offset)])
						}
					}
					blk.Literals = append(blk.Literals, lit...)
					blk.Sequences = append(blk.Sequences, s)
				}
				tl := r.Intn(free + 1)
				for j := 0; j < tl; j++ {
					c := byte('a' + r.Intn(3))
					blk.Literals = append(blk.Literals, c)
					tmp = append(tmp, c)
				}
				ref = tmp
				oplog = append(oplog, fmt.Sprintf("blk%v+%d", blk.Sequences, len(blk.Literals)))
				// write with retry
				for tries := 0; ; tries++ {
					if tries > 200 {
						report("retry does not converge")
						return
					}
					_, k, l, err := d.WriteBlock(blk)
					if !bytes.HasPrefix(ref, w.got) {
						report("writer got non-prefix")
						return
					}
					if err == nil {
						break
					}
					if err != errInj {
						report("foreign error: " + err.Error())
						return
					}
					blk.Sequences = blk.Sequences[k:]
					blk.Literals = blk.Literals[l:]
				}
			}
			for tries := 0; ; tries++ {
				if tries > 200 {
					report("flush does not converge")
					return
				}
				if err := d.Flush(); err == nil {
					break
				}
			}
			if !bytes.Equal(w.got, ref) {
				report("final output mismatch")
			}
		}()
	}
	for k, v := range bad {
		t.Logf("%-40s x%d %s", k, v, first[k])
	}
	t.Logf("kinds=%d spins=%d", len(bad), spins)
}
