package probe

import (
	"bytes"
	"fmt"
	"io"
	"math/rand"
	"testing"

	"github.com/ulikunitz/lz"
)

func TestRunClause(t *testing.T) {
	for gi, g := range gens {
		viol := map[string]int{}
		first := map[string]string{}
		blocks, qual := 0, 0
		for seed := 0; seed < 3000; seed++ {
			r := rand.New(rand.NewSource(int64(seed*17 + gi)))
			bufSize := pick(r, 40, 64, 100, 150, 333)
			ws := pick(r, 1, 2, 3, 8, 50, 400)
			if g.name == "GSAP" && ws < 2 {
				ws = 2
			}
			bc := lz.BufConfig{
				BufferSize: bufSize,
				ShrinkSize: r.Intn(bufSize),
				WindowSize: ws,
				BlockSize:  pick(r, 32, 33, 40, 64, 200),
			}
			cfg := g.mk(r, bc)
			switch c := cfg.(type) {
			case *lz.GSAPConfig:
				if c.WindowSize < c.MinMatchLen {
					c.MinMatchLen = 2
				}
			}
			p, err := cfg.NewParser()
			if err != nil {
				continue
			}
			bc = p.BufferConfig()
			minM := 0
			switch c := p.ParserConfig().(type) {
			case *lz.GSAPConfig:
				minM = c.MinMatchLen
			case *lz.OSAPConfig:
				minM = c.MinMatchLen
			}
			c := byte(pick(r, 0, 0, 1, 'a', 255, r.Intn(256)))
			var data []byte
			if r.Intn(2) == 0 {
				data = append(data, genData(r, r.Intn(50))...)
			}
			runStart := len(data)
			data = append(data, bytes.Repeat([]byte{c}, 32+r.Intn(600))...)
			runEnd := len(data)
			if r.Intn(2) == 0 {
				data = append(data, genData(r, r.Intn(50))...)
			}
			wp := lz.Wrap(iotestOneByte(bytes.NewReader(data), r.Intn(3) == 0), p)
			pos := 0
			for {
				var blk lz.Block
				n, err := wp.Parse(&blk, 0)
				if err == io.EOF {
					break
				}
				if err != nil {
					t.Fatal(err)
				}
				blocks++
				if n >= 32 && pos >= runStart && pos+n <= runEnd {
					qual++
					limit := 1
					if minM > 0 {
						limit = minM
					}
					if len(blk.Literals) > limit {
						k := fmt.Sprintf("run block with %d literals (limit %d)", len(blk.Literals), limit)
						viol[k]++
						if first[k] == "" {
							first[k] = fmt.Sprintf("seed=%d cfg=%+v c=%d pos=%d n=%d runStart=%d seqs=%v", seed, cfg, c, pos, n, runStart, blk.Sequences)
						}
					}
				}
				pos += n
			}
		}
		t.Logf("%s: blocks=%d qualifying=%d kinds=%d", g.name, blocks, qual, len(viol))
		for k, v := range viol {
			t.Logf("   %-45s x%d first: %s", k, v, first[k])
		}
	}
}
