package probe

import (
	"bytes"
	"fmt"
	"io"
	"math/rand"
	"testing"

	"github.com/ulikunitz/lz"
)

type genCfg struct {
	name string
	mk   func(r *rand.Rand, bc lz.BufConfig) lz.ParserConfig
}

func pick(r *rand.Rand, xs ...int) int { return xs[r.Intn(len(xs))] }

var gens = []genCfg{
	{"HP", func(r *rand.Rand, bc lz.BufConfig) lz.ParserConfig {
		il := 2 + r.Intn(7)
		c := &lz.HPConfig{InputLen: il, HashBits: r.Intn(min(8*il, 12) + 1)}
		c.SetBufConfig(bc)
		return c
	}},
	{"BHP", func(r *rand.Rand, bc lz.BufConfig) lz.ParserConfig {
		il := 2 + r.Intn(7)
		c := &lz.BHPConfig{InputLen: il, HashBits: r.Intn(min(8*il, 12) + 1)}
		c.SetBufConfig(bc)
		return c
	}},
	{"DHP", func(r *rand.Rand, bc lz.BufConfig) lz.ParserConfig {
		il1 := 2 + r.Intn(6)
		il2 := il1 + 1 + r.Intn(8-il1)
		c := &lz.DHPConfig{InputLen1: il1, HashBits1: r.Intn(12) + 1, InputLen2: il2, HashBits2: r.Intn(12) + 1}
		c.SetBufConfig(bc)
		return c
	}},
	{"BDHP", func(r *rand.Rand, bc lz.BufConfig) lz.ParserConfig {
		il1 := 2 + r.Intn(6)
		il2 := il1 + 1 + r.Intn(8-il1)
		c := &lz.BDHPConfig{InputLen1: il1, HashBits1: r.Intn(12) + 1, InputLen2: il2, HashBits2: r.Intn(12) + 1}
		c.SetBufConfig(bc)
		return c
	}},
	{"BUP", func(r *rand.Rand, bc lz.BufConfig) lz.ParserConfig {
		il := 2 + r.Intn(7)
		c := &lz.BUPConfig{InputLen: il, HashBits: r.Intn(10) + 1, BucketSize: 1 + r.Intn(5)}
		c.SetBufConfig(bc)
		return c
	}},
	{"GSAP", func(r *rand.Rand, bc lz.BufConfig) lz.ParserConfig {
		c := &lz.GSAPConfig{MinMatchLen: 2 + r.Intn(3)}
		if bc.WindowSize < c.MinMatchLen {
			bc.WindowSize = c.MinMatchLen
		}
		c.SetBufConfig(bc)
		return c
	}},
	{"OSAP", func(r *rand.Rand, bc lz.BufConfig) lz.ParserConfig {
		mn := 2 + r.Intn(3)
		c := &lz.OSAPConfig{MinMatchLen: mn, MaxMatchLen: mn + r.Intn(20)}
		c.SetBufConfig(bc)
		return c
	}},
}

func min(a, b int) int {
	if a < b {
		return a
	}
	return b
}

func genData(r *rand.Rand, n int) []byte {
	b := make([]byte, n)
	switch r.Intn(5) {
	case 0:
		for i := range b {
			b[i] = byte(r.Intn(2))
		}
	case 1:
		for i := range b {
			b[i] = byte('a' + r.Intn(3))
		}
	case 2:
		c := byte(r.Intn(256))
		for i := range b {
			b[i] = c
		}
	case 3:
		per := 1 + r.Intn(9)
		for i := range b {
			if i < per {
				b[i] = byte(r.Intn(4))
			} else {
				b[i] = b[i-per]
			}
			if r.Intn(50) == 0 {
				b[i] ^= 1
			}
		}
	default:
		r.Read(b)
	}
	return b
}

func TestRandomHistories(t *testing.T) {
	for gi, g := range gens {
		viol := map[string]int{}
		first := map[string]string{}
		for seed := 0; seed < 3000; seed++ {
			r := rand.New(rand.NewSource(int64(seed*7 + gi)))
			bufSize := pick(r, 1, 2, 3, 5, 8, 9, 16, 17, 33, 64, 100)
			bc := lz.BufConfig{
				BufferSize: bufSize,
				ShrinkSize: r.Intn(bufSize), // < BufferSize; 0 -> default
				WindowSize: pick(r, 1, 2, 3, 4, 7, 8, 16, 50, 200),
				BlockSize:  pick(r, 1, 2, 3, 5, 8, 16, 40, 200),
			}
			cfg := g.mk(r, bc)
			func() {
				var oplog []string
				defer func() {
					if e := recover(); e != nil {
						k := "panic: " + fmt.Sprint(e)
						if len(k) > 60 {
							k = k[:60]
						}
						viol[k]++
						if first[k] == "" {
							first[k] = fmt.Sprintf("seed=%d cfg=%+v ops=%v", seed, cfg, oplog)
						}
					}
				}()
				report := func(k string) {
					viol[k]++
					if first[k] == "" {
						first[k] = fmt.Sprintf("seed=%d cfg=%+v ops=%v", seed, cfg, oplog)
					}
				}
				p, err := cfg.NewParser()
				if err != nil {
					report("newparser: " + err.Error())
					return
				}
				bc := p.BufferConfig()
				var stream []byte   // all bytes accepted since reset
				var decoded []byte  // model decoder output
				parsed := 0         // stream position of W
				for op := 0; op < 60; op++ {
					switch r.Intn(10) {
					case 0, 1, 2:
						d := genData(r, r.Intn(2*bufSize+2))
						n, err := p.Write(d)
						oplog = append(oplog, fmt.Sprintf("W%d/%d", n, len(d)))
						stream = append(stream, d[:n]...)
						if (err != nil) != (n < len(d)) {
							report("write err mismatch")
						}
					case 3:
						d := genData(r, r.Intn(2*bufSize+2))
						n, _ := p.ReadFrom(iotestOneByte(bytes.NewReader(d), r.Intn(2) == 0))
						oplog = append(oplog, fmt.Sprintf("R%d/%d", n, len(d)))
						stream = append(stream, d[:n]...)
					case 4:
						k := p.Shrink()
						oplog = append(oplog, fmt.Sprintf("S%d", k))
					case 5:
						if r.Intn(6) == 0 {
							p.Reset(nil)
							oplog = append(oplog, "Reset")
							stream, decoded, parsed = nil, nil, 0
						}
					default:
						flags := 0
						if r.Intn(3) == 0 {
							flags = lz.NoTrailingLiterals
						}
						var blk lz.Block
						n, err := p.Parse(&blk, flags)
						oplog = append(oplog, fmt.Sprintf("P%d:%d", flags, n))
						if err != nil {
							if err != lz.ErrEmptyBuffer || n != 0 || parsed != len(stream) {
								report("parse err unexpected: " + err.Error())
							}
							continue
						}
						if parsed == len(stream) {
							report("parse ok on empty")
						}
						if n < 1 || n > bc.BlockSize {
							report("n out of range")
						}
						// well-formedness
						pos := len(decoded)
						lits := 0
						for _, s := range blk.Sequences {
							lits += int(s.LitLen)
							pos += int(s.LitLen)
							if s.Offset < 1 || int(s.Offset) > bc.WindowSize || int(s.Offset) > pos {
								report("offset out of range")
								return
							}
							pos += int(s.MatchLen)
							if s.MatchLen < 2 {
								report("matchlen<2")
							}
						}
						if lits > len(blk.Literals) {
							report("litlen sum")
							return
						}
						decoded = expand(decoded, blk)
						parsed += n
						if len(decoded) != parsed {
							report("n != expansion length")
							return
						}
						if !bytes.Equal(decoded, stream[:parsed]) {
							report("roundtrip mismatch")
							return
						}
					}
				}
			}()
		}
		t.Logf("%s: %d kinds", g.name, len(viol))
		for k, v := range viol {
			t.Logf("   %-50s x%d  first: %s", k, v, first[k])
		}
	}
}

type obr struct {
	r   io.Reader
	one bool
}

func (o *obr) Read(p []byte) (int, error) {
	if o.one && len(p) > 1 {
		p = p[:1]
	}
	return o.r.Read(p)
}
func iotestOneByte(r io.Reader, one bool) io.Reader { return &obr{r, one} }
