package probe

import (
	"bytes"
	"encoding/json"
	"errors"
	"fmt"
	"io"
	"math/rand"
	"reflect"
	"testing"

	"github.com/ulikunitz/lz"
)

func randInt(r *rand.Rand) int {
	switch r.Intn(6) {
	case 0:
		return 0
	case 1:
		return -1 - r.Intn(1000)
	case 2:
		return r.Intn(100)
	case 3:
		return int(r.Int63())
	case 4:
		return -int(r.Int63())
	default:
		return 1 << uint(r.Intn(62))
	}
}

func fillRandom(r *rand.Rand, c lz.ParserConfig) {
	v := reflect.ValueOf(c).Elem()
	for i := 0; i < v.NumField(); i++ {
		f := v.Field(i)
		switch f.Kind() {
		case reflect.Int:
			f.SetInt(int64(randInt(r)))
		case reflect.String:
			f.SetString([]string{"", "XZCost", "foo", "<>&\"\\ü"}[r.Intn(4)])
		}
	}
}

func TestConfigJSON(t *testing.T) {
	r := rand.New(rand.NewSource(5))
	mk := []func() lz.ParserConfig{
		func() lz.ParserConfig { return &lz.HPConfig{} },
		func() lz.ParserConfig { return &lz.BHPConfig{} },
		func() lz.ParserConfig { return &lz.DHPConfig{} },
		func() lz.ParserConfig { return &lz.BDHPConfig{} },
		func() lz.ParserConfig { return &lz.BUPConfig{} },
		func() lz.ParserConfig { return &lz.GSAPConfig{} },
		func() lz.ParserConfig { return &lz.OSAPConfig{} },
	}
	bad := map[string]int{}
	for it := 0; it < 20000; it++ {
		ti := r.Intn(len(mk))
		c := mk[ti]()
		fillRandom(r, c)
		p, err := json.Marshal(c)
		if err != nil {
			bad["marshal err"]++
			continue
		}
		c2, err := lz.ParseJSON(p)
		if err != nil {
			bad["parsejson err: "+err.Error()]++
			continue
		}
		if reflect.TypeOf(c2) != reflect.TypeOf(c) || !reflect.DeepEqual(c, c2) {
			bad[fmt.Sprintf("roundtrip mismatch %T", c)]++
		}
		// clone
		cl := c.Clone()
		if !reflect.DeepEqual(cl, c) {
			bad["clone neq"]++
		}
		// mismatching type
		tj := (ti + 1 + r.Intn(len(mk)-1)) % len(mk)
		o := mk[tj]()
		if err := json.Unmarshal(p, o); err == nil {
			bad[fmt.Sprintf("mismatch accepted %T<-%T", o, c)]++
		}
		// defaults idempotent, only zero fields
		d1 := c.Clone()
		d1.SetDefaults()
		d2 := d1.Clone()
		d2.SetDefaults()
		if !reflect.DeepEqual(d1, d2) {
			bad[fmt.Sprintf("defaults not idempotent %T", c)]++
		}
		v0, v1 := reflect.ValueOf(c).Elem(), reflect.ValueOf(d1).Elem()
		for i := 0; i < v0.NumField(); i++ {
			if !v0.Field(i).IsZero() && !reflect.DeepEqual(v0.Field(i).Interface(), v1.Field(i).Interface()) {
				bad[fmt.Sprintf("defaults changed non-zero %T.%s", c, v0.Type().Field(i).Name)]++
			}
		}
	}
	// unknown types
	for _, s := range []string{`{"Type":"XX"}`, `{}`, `{"Type":""}`, `{"Type":"hp"}`, `{"Type":"HP "}`, `[]`, `{"Type":5}`, `null`, `{"Type":"HP","InputLen":"x"}`} {
		c, err := lz.ParseJSON([]byte(s))
		if err == nil {
			bad[fmt.Sprintf("accepted %s -> %+v", s, c)]++
		}
	}
	// reported config
	for it := 0; it < 300; it++ {
		g := gens[r.Intn(len(gens))]
		bs := 8 + r.Intn(100)
		bc := lz.BufConfig{BufferSize: bs, ShrinkSize: r.Intn(bs), WindowSize: r.Intn(100), BlockSize: r.Intn(50)}
		c := g.mk(r, bc)
		p, err := c.NewParser()
		if err != nil {
			continue
		}
		d := c.Clone()
		d.SetDefaults()
		if !reflect.DeepEqual(p.ParserConfig(), d) {
			bad[fmt.Sprintf("ParserConfig != defaults(cfg) %T: %+v vs %+v", c, p.ParserConfig(), d)]++
		}
		if p.BufferConfig() != d.BufConfig() {
			bad[fmt.Sprintf("BufferConfig != %T", c)]++
		}
	}
	for k, v := range bad {
		t.Logf("%-60s x%d", k, v)
	}
	t.Logf("kinds=%d", len(bad))
}

// reader with chunk plan & faults
type planReader struct {
	data   []byte
	pos    int
	r      *rand.Rand
	mode   int
	failAt map[int]bool // call indexes failing
	calls  int
	persistent bool
	failing bool
	handed int
}

var errRd = errors.New("injected read error")

func (p *planReader) Read(b []byte) (int, error) {
	p.calls++
	if p.failing && p.persistent {
		return 0, errRd
	}
	if p.failAt[p.calls] {
		p.failing = true
		// maybe with data
		if p.r.Intn(2) == 0 && p.pos < len(p.data) && len(b) > 0 {
			k := 1 + p.r.Intn(min(len(b), len(p.data)-p.pos))
			copy(b, p.data[p.pos:p.pos+k])
			p.pos += k
			p.handed += k
			return k, errRd
		}
		return 0, errRd
	}
	if p.pos >= len(p.data) {
		return 0, io.EOF
	}
	k := len(b)
	switch p.mode {
	case 1:
		k = 1
	case 2:
		k = 1 + p.r.Intn(len(b)+1)
	}
	if k > len(b) {
		k = len(b)
	}
	if k > len(p.data)-p.pos {
		k = len(p.data) - p.pos
	}
	copy(b, p.data[p.pos:p.pos+k])
	p.pos += k
	p.handed += k
	if p.pos == len(p.data) && p.mode == 3 {
		return k, io.EOF
	}
	return k, nil
}

func TestWrapFaults(t *testing.T) {
	bad := map[string]int{}
	first := map[string]string{}
	for gi, g := range gens {
		for seed := 0; seed < 1500; seed++ {
			r := rand.New(rand.NewSource(int64(seed*31 + gi)))
			bs := pick(r, 2, 3, 8, 17, 64)
			bc := lz.BufConfig{BufferSize: bs, ShrinkSize: r.Intn(bs), WindowSize: pick(r, 2, 3, 8, 100), BlockSize: pick(r, 1, 3, 8, 100)}
			cfg := g.mk(r, bc)
			data := genData(r, r.Intn(5*bs))
			// canonical
			var canon []lz.Block
			{
				p, err := cfg.NewParser()
				if err != nil {
					continue
				}
				wp := lz.Wrap(bytes.NewReader(data), p)
				for {
					var blk lz.Block
					_, err := wp.Parse(&blk, 0)
					if err != nil {
						break
					}
					canon = append(canon, blk)
				}
			}
			for mode := 0; mode < 4; mode++ {
				p, _ := cfg.NewParser()
				pr := &planReader{data: data, r: r, mode: mode}
				wp := lz.Wrap(pr, p)
				var blks []lz.Block
				var dec []byte
				for {
					var blk lz.Block
					n, err := wp.Parse(&blk, 0)
					if err != nil {
						if err != io.EOF || n != 0 {
							bad["bad end"]++
						}
						break
					}
					blks = append(blks, blk)
					dec = expand(dec, blk)
				}
				for i := 0; i < 3; i++ {
					var blk lz.Block
					n, err := wp.Parse(&blk, 0)
					if n != 0 || err != io.EOF {
						bad["EOF not sticky"]++
					}
				}
				if !bytes.Equal(dec, data) {
					bad["roundtrip"]++
				}
				if !reflect.DeepEqual(blks, canon) && !(len(blks) == 0 && len(canon) == 0) {
					k := fmt.Sprintf("chunking dependence mode=%d %s", mode, g.name)
					bad[k]++
					if first[k] == "" {
						first[k] = fmt.Sprintf("seed=%d cfg=%+v len=%d", seed, cfg, len(data))
					}
				}
			}
			// faults
			{
				p, _ := cfg.NewParser()
				pr := &planReader{data: data, r: r, mode: r.Intn(3), failAt: map[int]bool{1 + r.Intn(6): true, 3 + r.Intn(10): true}, persistent: r.Intn(2) == 0}
				wp := lz.Wrap(pr, p)
				var dec []byte
				steps := 0
				for {
					steps++
					if steps > 10*len(data)+50 {
						bad["no termination"]++
						break
					}
					var blk lz.Block
					n, err := wp.Parse(&blk, 0)
					if err == nil {
						dec = expand(dec, blk)
						if !bytes.Equal(dec, data[:len(dec)]) || len(dec) > pr.handed {
							bad["prefix violated"]++
							break
						}
						continue
					}
					if n != 0 {
						bad["n != 0 with error"]++
					}
					if err == io.EOF {
						break
					}
					if err != errRd {
						bad["foreign error "+err.Error()]++
						break
					}
					if len(dec) != pr.handed {
						k := "error before all read bytes delivered " + g.name
						bad[k]++
						if first[k] == "" {
							first[k] = fmt.Sprintf("seed=%d cfg=%+v len=%d dec=%d handed=%d", seed, cfg, len(data), len(dec), pr.handed)
						}
					}
					pr.failing = false // recover
				}
				if !bytes.Equal(dec, data) {
					bad["final mismatch after faults"]++
				}
			}
		}
	}
	for k, v := range bad {
		t.Logf("%-60s x%d %s", k, v, first[k])
	}
	t.Logf("kinds=%d", len(bad))
}
