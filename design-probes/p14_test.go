package probe

import (
	"bytes"
	"fmt"
	"io"
	"math/rand"
	"os"
	"path/filepath"
	"reflect"
	"sort"
	"testing"
	"time"

	"github.com/ulikunitz/lz"
	"github.com/ulikunitz/lz/suffix"
)

type res struct {
	N   int
	Err string
	B   lz.Block
}

func drive(p lz.Parser, r *rand.Rand, ops int, bs int) []res {
	var out []res
	for op := 0; op < ops; op++ {
		switch r.Intn(6) {
		case 0, 1:
			d := genData(r, r.Intn(2*bs+2))
			n, err := p.Write(d)
			out = append(out, res{N: n, Err: fmt.Sprint(err)})
		case 2:
			out = append(out, res{N: p.Shrink()})
		default:
			var blk lz.Block
			n, err := p.Parse(&blk, pick(r, 0, 0, lz.NoTrailingLiterals))
			if len(blk.Sequences) == 0 {
				blk.Sequences = nil
			}
			if len(blk.Literals) == 0 {
				blk.Literals = nil
			}
			out = append(out, res{N: n, Err: fmt.Sprint(err), B: blk})
		}
	}
	return out
}

func TestResetDataVsFresh(t *testing.T) {
	for gi, g := range gens {
		diffs, runs := 0, 0
		var ex string
		for seed := 0; seed < 1500; seed++ {
			r := rand.New(rand.NewSource(int64(seed*29 + gi)))
			bs := pick(r, 8, 17, 64, 150)
			bc := lz.BufConfig{BufferSize: bs, ShrinkSize: r.Intn(bs), WindowSize: pick(r, 2, 3, 8, 16, 100), BlockSize: pick(r, 3, 8, 40)}
			cfg := g.mk(r, bc)
			p1, err := cfg.NewParser()
			if err != nil {
				continue
			}
			p2, _ := cfg.NewParser()
			runs++
			drive(p1, rand.New(rand.NewSource(int64(seed))), 40, bs)
			n := r.Intn(bs + 1)
			base := genData(r, n)
			extra := pick(r, 0, 7, 8, 50)
			d1 := make([]byte, n, n+extra)
			copy(d1, base)
			d2 := make([]byte, n, n+extra)
			copy(d2, base)
			if r.Intn(4) == 0 {
				d1, d2 = nil, nil
			}
			e1, e2 := p1.Reset(d1), p2.Reset(d2)
			if (e1 == nil) != (e2 == nil) {
				diffs++
				continue
			}
			s := int64(seed + 1000)
			r1 := drive(p1, rand.New(rand.NewSource(s)), 40, bs)
			r2 := drive(p2, rand.New(rand.NewSource(s)), 40, bs)
			if !reflect.DeepEqual(r1, r2) {
				diffs++
				if ex == "" {
					ex = fmt.Sprintf("seed=%d cfg=%+v", seed, cfg)
				}
			}
		}
		t.Logf("%s: diffs=%d/%d %s", g.name, diffs, runs, ex)
	}
}

func TestLCPVariants(t *testing.T) {
	r := rand.New(rand.NewSource(4))
	bad := 0
	for it := 0; it < 5000; it++ {
		p := genData(r, r.Intn(300))
		n := len(p)
		// naive sa
		idx := make([]int32, n)
		for i := range idx {
			idx[i] = int32(i)
		}
		sort.Slice(idx, func(a, b int) bool { return bytes.Compare(p[idx[a]:], p[idx[b]:]) < 0 })
		sa := make([]int32, n)
		suffix.Sort(p, sa)
		if !reflect.DeepEqual(sa, idx) && n > 0 {
			bad++
			continue
		}
		want := make([]int32, n)
		for i := 1; i < n; i++ {
			a, b := p[sa[i-1]:], p[sa[i]:]
			l := 0
			for l < len(a) && l < len(b) && a[l] == b[l] {
				l++
			}
			want[i] = int32(l)
		}
		inv := make([]int32, n)
		suffix.InvertSA(sa, inv)
		for j, i := range sa {
			if inv[i] != int32(j) {
				bad++
			}
		}
		for variant := 0; variant < 4; variant++ {
			lcp := make([]int32, n)
			for i := range lcp {
				lcp[i] = -99
			}
			var a, b []int32
			if variant&1 != 0 {
				a = append([]int32{}, sa...)
			}
			if variant&2 != 0 {
				b = append([]int32{}, inv...)
			}
			func() {
				defer func() {
					if e := recover(); e != nil {
						bad++
						t.Logf("panic n=%d variant=%d: %v", n, variant, e)
					}
				}()
				suffix.LCP(p, a, b, lcp)
			}()
			if n > 0 && !reflect.DeepEqual(lcp, want) {
				bad++
				if bad < 5 {
					t.Logf("lcp mismatch n=%d variant=%d", n, variant)
				}
			}
		}
	}
	t.Logf("bad=%d", bad)
}

func TestLargeScale(t *testing.T) {
	files, _ := filepath.Glob("/repo/*.go")
	more, _ := filepath.Glob("/repo/suffix/*.go")
	files = append(files, more...)
	sort.Strings(files)
	var src []byte
	for _, f := range files {
		d, _ := os.ReadFile(f)
		src = append(src, d...)
	}
	r := rand.New(rand.NewSource(1))
	rnd := make([]byte, 300000)
	r.Read(rnd)
	data := append(append(append(append([]byte{}, src...), rnd...), bytes.Repeat([]byte{0}, 400000)...), src...)
	data = append(data, bytes.Repeat(src[:50000], 4)...)
	t.Logf("data=%d bytes", len(data))
	bc := lz.BufConfig{BufferSize: 256 << 10, ShrinkSize: 32 << 10, WindowSize: 64 << 10, BlockSize: 32 << 10}
	cfgs := []lz.ParserConfig{&lz.HPConfig{}, &lz.BHPConfig{}, &lz.DHPConfig{}, &lz.BDHPConfig{}, &lz.BUPConfig{}, &lz.GSAPConfig{}, &lz.OSAPConfig{}}
	for _, c := range cfgs {
		c.SetBufConfig(bc)
		p, err := c.NewParser()
		if err != nil {
			t.Fatal(err)
		}
		start := time.Now()
		var out bytes.Buffer
		d, _ := lz.NewDecoder(&out, lz.DecoderConfig{WindowSize: bc.WindowSize})
		wp := lz.Wrap(iotestOneByte(bytes.NewReader(data), false), p)
		var dec []byte
		blocks, seqs := 0, 0
		var derr error
		for {
			var blk lz.Block
			_, err := wp.Parse(&blk, 0)
			if err == io.EOF {
				break
			}
			if err != nil {
				t.Fatal(err)
			}
			blocks++
			seqs += len(blk.Sequences)
			dec = expand(dec, blk)
			if derr == nil {
				_, _, _, derr = d.WriteBlock(blk)
			}
		}
		d.Flush()
		t.Logf("%T: blocks=%d seqs=%d expandOK=%v decoderErr=%v decoderOK=%v  %v", c, blocks, seqs, bytes.Equal(dec, data), derr, bytes.Equal(out.Bytes(), data), time.Since(start).Round(time.Millisecond))
	}
}
