package probe

import (
	"bytes"
	"math/rand"
	"reflect"
	"testing"

	"github.com/ulikunitz/lz"
)

func TestWriteBlockN2(t *testing.T) {
	var b lz.DecoderBuffer
	b.Init(lz.DecoderConfig{WindowSize: 4, BufferSize: 12})
	b.Write([]byte("0123456789"))
	buf := make([]byte, 10)
	b.Read(buf)
	n, k, l, err := b.WriteBlock(lz.Block{Literals: []byte("abcdefg")})
	t.Logf("n=%d k=%d l=%d err=%v off=%d data=%q bufsize=%d", n, k, l, err, b.Off, b.Data, b.BufferSize)
}

func parseAll(p lz.Parser, data []byte, t *testing.T) []lz.Block {
	var blks []lz.Block
	p.Write(data)
	for {
		var blk lz.Block
		_, err := p.Parse(&blk, 0)
		if err != nil {
			break
		}
		blks = append(blks, blk)
	}
	return blks
}

// F: Reset vs fresh for each parser
func TestResetVsFresh(t *testing.T) {
	rnd := rand.New(rand.NewSource(1))
	mk := func(n, alpha int) []byte {
		b := make([]byte, n)
		for i := range b {
			b[i] = byte('a' + rnd.Intn(alpha))
		}
		return b
	}
	cfgs := []lz.ParserConfig{
		&lz.HPConfig{BufferSize: 512, WindowSize: 512, BlockSize: 64, InputLen: 4, HashBits: 6},
		&lz.BHPConfig{BufferSize: 512, WindowSize: 512, BlockSize: 64, InputLen: 4, HashBits: 6},
		&lz.DHPConfig{BufferSize: 512, WindowSize: 512, BlockSize: 64, InputLen1: 4, HashBits1: 6, InputLen2: 6, HashBits2: 6},
		&lz.BDHPConfig{BufferSize: 512, WindowSize: 512, BlockSize: 64, InputLen1: 4, HashBits1: 6, InputLen2: 6, HashBits2: 6},
		&lz.BUPConfig{BufferSize: 512, WindowSize: 512, BlockSize: 64, InputLen: 4, HashBits: 6, BucketSize: 3},
		&lz.GSAPConfig{BufferSize: 512, WindowSize: 512, BlockSize: 64},
		&lz.OSAPConfig{BufferSize: 512, WindowSize: 512, BlockSize: 64},
	}
	for _, c := range cfgs {
		diffs := 0
		for it := 0; it < 300; it++ {
			a := mk(300, 2)
			b := mk(300, 2)
			p1, _ := c.NewParser()
			parseAll(p1, a, t)
			p1.Reset(nil)
			r1 := parseAll(p1, b, t)
			p2, _ := c.NewParser()
			r2 := parseAll(p2, b, t)
			if !reflect.DeepEqual(r1, r2) {
				diffs++
			}
		}
		t.Logf("%T: diffs=%d/300", c, diffs)
	}
}

func blockCost(blk *lz.Block) uint64 {
	c := uint64(9 * len(blk.Literals))
	for _, s := range blk.Sequences {
		c += lz.XZCost(s.MatchLen, s.Offset)
	}
	return c
}

// brute force optimal parse of data[start:end] with sources in data[0:], window W
func optCost(data []byte, start, end, minM, maxM, W int) uint64 {
	n := end - start
	d := make([]uint64, n+1)
	for i := 1; i <= n; i++ {
		d[i] = ^uint64(0)
	}
	for i := 0; i < n; i++ {
		if c := d[i] + 9; c < d[i+1] {
			d[i+1] = c
		}
		pos := start + i
		for src := pos - 1; src >= 0 && pos-src <= W; src-- {
			l := 0
			for pos+l < end && data[src+l] == data[pos+l] && l < maxM {
				l++
			}
			for m := minM; m <= l; m++ {
				c := d[i] + lz.XZCost(uint32(m), uint32(pos-src))
				if c < d[i+m] {
					d[i+m] = c
				}
			}
		}
	}
	return d[n]
}

// C: OSAP optimality
func TestOSAPOpt(t *testing.T) {
	rnd := rand.New(rand.NewSource(2))
	bad := 0
	var ex []byte
	var exGot, exWant uint64
	for it := 0; it < 500; it++ {
		n := 5 + rnd.Intn(40)
		data := make([]byte, n)
		for i := range data {
			data[i] = byte('a' + rnd.Intn(2))
		}
		p, _ := (&lz.OSAPConfig{BufferSize: 512, WindowSize: 512, BlockSize: 512, MinMatchLen: 2}).NewParser()
		p.Write(data)
		var blk lz.Block
		p.Parse(&blk, 0)
		if !bytes.Equal(expand(nil, blk), data) {
			t.Fatalf("roundtrip")
		}
		got := blockCost(&blk)
		want := optCost(data, 0, n, 2, 273, 512)
		if got != want {
			bad++
			if ex == nil || len(data) < len(ex) {
				ex = data
				exGot, exWant = got, want
			}
		}
	}
	t.Logf("OSAP suboptimal %d/500; e.g. %q got=%d want=%d", bad, ex, exGot, exWant)
}

func lpm(data []byte, pos, end int) int {
	best := 0
	for src := 0; src < pos; src++ {
		l := 0
		for pos+l < end && data[src+l] == data[pos+l] {
			l++
		}
		if l > best {
			best = l
		}
	}
	return best
}

// D/E: GSAP greedy
func TestGSAPGreedy(t *testing.T) {
	rnd := rand.New(rand.NewSource(3))
	badLit, badLen := 0, 0
	for it := 0; it < 300; it++ {
		n := 20 + rnd.Intn(100)
		data := make([]byte, n)
		for i := range data {
			data[i] = byte('a' + rnd.Intn(3))
		}
		p, _ := (&lz.GSAPConfig{BufferSize: 512, WindowSize: 512, BlockSize: 512, MinMatchLen: 3}).NewParser()
		p.Write(data)
		var blk lz.Block
		p.Parse(&blk, 0)
		pos := 0
		fl, fn := false, false
		for _, s := range blk.Sequences {
			for k := 0; k < int(s.LitLen); k++ {
				if lpm(data, pos, n) >= 3 {
					fl = true
				}
				pos++
			}
			if lpm(data, pos, n) != int(s.MatchLen) {
				fn = true
			}
			pos += int(s.MatchLen)
		}
		for ; pos < n; pos++ {
			if lpm(data, pos, n) >= 3 {
				fl = true
			}
		}
		if fl {
			badLit++
		}
		if fn {
			badLen++
		}
	}
	t.Logf("GSAP: inputs with a literal where a match existed: %d/300; with non-longest match: %d/300", badLit, badLen)
}
