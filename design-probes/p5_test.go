package probe

import (
	"bytes"
	"fmt"
	"math/rand"
	"testing"

	"github.com/ulikunitz/lz"
)

// history probe for C11 (OSAP), C12 (GSAP), C19 (maximality) with Shrink, Reset, multi blocks
func TestDeepHistories(t *testing.T) {
	for gi, g := range gens {
		viol := map[string]int{}
		first := map[string]string{}
		total := 0
		for seed := 0; seed < 4000; seed++ {
			r := rand.New(rand.NewSource(int64(seed*13 + gi)))
			bufSize := pick(r, 8, 9, 16, 17, 33, 64, 100, 150)
			bc := lz.BufConfig{
				BufferSize: bufSize,
				ShrinkSize: r.Intn(bufSize),
				WindowSize: pick(r, 1, 2, 3, 4, 7, 8, 16, 50, 200),
				BlockSize:  pick(r, 1, 2, 3, 5, 8, 16, 40, 200),
			}
			cfg := g.mk(r, bc)
			var oplog []string
			report := func(k string) {
				viol[k]++
				if first[k] == "" {
					first[k] = fmt.Sprintf("seed=%d cfg=%+v ops=%v", seed, cfg, oplog)
				}
			}
			p, err := cfg.NewParser()
			if err != nil {
				continue
			}
			bc = p.BufferConfig()
			var stream []byte
			off := 0 // abs offset of buffer start
			w := 0
			nilUsed := false
			ntlUsed := false
			minM, maxM := 0, 1<<30
			switch c := p.ParserConfig().(type) {
			case *lz.GSAPConfig:
				minM = c.MinMatchLen
			case *lz.OSAPConfig:
				minM, maxM = c.MinMatchLen, c.MaxMatchLen
			}
			for op := 0; op < 80; op++ {
				switch r.Intn(10) {
				case 0, 1, 2, 3:
					d := genData(r, r.Intn(2*bufSize+2))
					n, _ := p.Write(d)
					oplog = append(oplog, fmt.Sprintf("W%d", n))
					stream = append(stream, d[:n]...)
				case 4:
					k := p.Shrink()
					off += k
					oplog = append(oplog, fmt.Sprintf("S%d", k))
				case 5:
					if r.Intn(8) == 0 {
						p.Reset(nil)
						oplog = append(oplog, "Reset")
						stream, off, w, nilUsed, ntlUsed = nil, 0, 0, false, false
					}
				default:
					flags := 0
					if r.Intn(4) == 0 {
						flags = lz.NoTrailingLiterals
					}
					var blk lz.Block
					n, err := p.Parse(&blk, flags)
					oplog = append(oplog, fmt.Sprintf("P%d:%d", flags, n))
					if err != nil {
						continue
					}
					total++
					end := w + n
					if flags == 0 {
						end = w + n
					}
					blockEnd := w + bc.BlockSize
					if blockEnd > len(stream) {
						blockEnd = len(stream)
					}
					// walk
					pos := w
					lpmAt := func(pos int) int {
						best := 0
						for src := off; src < pos; src++ {
							l := 0
							for pos+l < blockEnd && stream[src+l] == stream[pos+l] {
								l++
							}
							if l > best {
								best = l
							}
						}
						return best
					}
					for _, s := range blk.Sequences {
						for k := 0; k < int(s.LitLen); k++ {
							if g.name == "GSAP" && !nilUsed && !ntlUsed && bc.BufferSize <= bc.WindowSize && lpmAt(pos) >= minM {
								report("GSAP literal where match available")
							}
							if g.name == "GSAP" && !nilUsed && ntlUsed && bc.BufferSize <= bc.WindowSize && lpmAt(pos) >= minM {
								report("GSAP literal where match available (after NTL)")
							}
							pos++
						}
						// maximality
						m, o := int(s.MatchLen), int(s.Offset)
						if g.name != "OSAP" {
							if pos+m < blockEnd && stream[pos+m] == stream[pos+m-o] {
								report("match not maximal to the right")
							}
						}
						if g.name == "GSAP" && !nilUsed {
							if l := lpmAt(pos); l != m {
								if ntlUsed {
									report("GSAP match not longest (after NTL)")
								} else {
									report("GSAP match not longest")
								}
							}
						}
						if (g.name == "BHP" || g.name == "BDHP") && s.LitLen > 0 {
							if pos-1-o >= off && stream[pos-1] == stream[pos-1-o] {
								report("backward not extended")
							}
						}
						pos += m
					}
					if g.name == "GSAP" && flags == 0 && !nilUsed && bc.BufferSize <= bc.WindowSize {
						for q := pos; q < end; q++ {
							if lpmAt(q) >= minM {
								if ntlUsed {
									report("GSAP trailing literal where match available (after NTL)")
								} else {
									report("GSAP trailing literal where match available")
								}
							}
						}
					}
					if g.name == "OSAP" && flags == 0 {
						got := blockCost(&blk)
						want := optCostOff(stream, off, w, end, minM, maxM, bc.WindowSize)
						if got != want {
							if nilUsed {
								report(fmt.Sprintf("OSAP not optimal (after nil)"))
							} else {
								report(fmt.Sprintf("OSAP not optimal"))
							}
						}
					}
					if !bytes.Equal(expand(append([]byte{}, stream[:w]...), blk), stream[:end]) {
						report("roundtrip")
					}
					if flags != 0 {
						ntlUsed = true
					}
					w = end
				}
			}
		}
		t.Logf("%s: blocks=%d kinds=%d", g.name, total, len(viol))
		for k, v := range viol {
			t.Logf("   %-50s x%d  first: %s", k, v, first[k])
		}
	}
}

func optCostOff(data []byte, off, start, end, minM, maxM, W int) uint64 {
	n := end - start
	d := make([]uint64, n+1)
	for i := 1; i <= n; i++ {
		d[i] = ^uint64(0)
	}
	for i := 0; i < n; i++ {
		if c := d[i] + 9; c < d[i+1] {
			d[i+1] = c
		}
		pos := start + i
		for src := pos - 1; src >= off && pos-src <= W; src-- {
			l := 0
			for pos+l < end && data[src+l] == data[pos+l] && l < maxM {
				l++
			}
			for m := minM; m <= l; m++ {
				c := d[i] + lz.XZCost(uint32(m), uint32(pos-src))
				if c < d[i+m] {
					d[i+m] = c
				}
			}
		}
	}
	return d[n]
}
