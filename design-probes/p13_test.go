package probe

import (
	"bytes"
	"io"
	"math/rand"
	"reflect"
	"sync"
	"testing"

	"github.com/ulikunitz/lz"
)

func runOne(gi int, seed int) ([]lz.Block, []byte) {
	g := gens[gi]
	r := rand.New(rand.NewSource(int64(seed)))
	bs := pick(r, 8, 17, 64, 300)
	bc := lz.BufConfig{BufferSize: bs, ShrinkSize: r.Intn(bs), WindowSize: pick(r, 2, 3, 8, 16, 100), BlockSize: pick(r, 3, 8, 40)}
	cfg := g.mk(r, bc)
	p, err := cfg.NewParser()
	if err != nil {
		return nil, nil
	}
	data := genData(r, r.Intn(6*bs))
	var out bytes.Buffer
	d, _ := lz.NewDecoder(&out, lz.DecoderConfig{WindowSize: p.BufferConfig().WindowSize, BufferSize: 3*p.BufferConfig().WindowSize + 300})
	wp := lz.Wrap(bytes.NewReader(data), p)
	var blks []lz.Block
	for {
		var blk lz.Block
		_, err := wp.Parse(&blk, 0)
		if err == io.EOF {
			break
		}
		blks = append(blks, blk)
		d.WriteBlock(blk)
	}
	d.Flush()
	return blks, out.Bytes()
}

func TestConcurrentInstances(t *testing.T) {
	const G = 32
	type res struct {
		b []lz.Block
		o []byte
	}
	ref := make([]res, G*20)
	for i := range ref {
		b, o := runOne(i%7, i)
		ref[i] = res{b, o}
	}
	var wg sync.WaitGroup
	diffs := make([]int, G)
	for gr := 0; gr < G; gr++ {
		wg.Add(1)
		go func(gr int) {
			defer wg.Done()
			for k := 0; k < 20; k++ {
				i := gr*20 + k
				b, o := runOne(i%7, i)
				if !reflect.DeepEqual(b, ref[i].b) || !bytes.Equal(o, ref[i].o) {
					diffs[gr]++
				}
			}
		}(gr)
	}
	wg.Wait()
	tot := 0
	for _, d := range diffs {
		tot += d
	}
	t.Logf("diffs=%d", tot)
}
