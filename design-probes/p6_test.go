package probe

import (
	"math/rand"
	"testing"

	"github.com/ulikunitz/lz"
)

func TestGSAPAfterNTL(t *testing.T) {
	bad := 0
	shown := 0
	for seed := 0; seed < 20000; seed++ {
		r := rand.New(rand.NewSource(int64(seed)))
		n := 10 + r.Intn(40)
		data := make([]byte, n)
		for i := range data {
			data[i] = byte('a' + r.Intn(2))
		}
		bs := 4 + r.Intn(12)
		p, _ := (&lz.GSAPConfig{BufferSize: 256, WindowSize: 256, BlockSize: bs, MinMatchLen: 2 + r.Intn(2)}).NewParser()
		minM := p.ParserConfig().(*lz.GSAPConfig).MinMatchLen
		p.Write(data)
		w := 0
		for {
			var blk lz.Block
			flags := 0
			if r.Intn(2) == 0 {
				flags = lz.NoTrailingLiterals
			}
			nn, err := p.Parse(&blk, flags)
			if err != nil {
				break
			}
			blockEnd := w + bs
			if blockEnd > n {
				blockEnd = n
			}
			pos := w
			fail := false
			for _, s := range blk.Sequences {
				for k := 0; k < int(s.LitLen); k++ {
					if lpm(data, pos, blockEnd) >= minM {
						fail = true
					}
					pos++
				}
				if lpm(data, pos, blockEnd) != int(s.MatchLen) {
					fail = true
				}
				pos += int(s.MatchLen)
			}
			if flags == 0 {
				for ; pos < w+nn; pos++ {
					if lpm(data, pos, blockEnd) >= minM {
						fail = true
					}
				}
			}
			if fail {
				bad++
				if shown < 3 {
					shown++
					t.Logf("seed=%d data=%q bs=%d minM=%d w=%d blk=%v lits=%q", seed, data, bs, minM, w, blk.Sequences, blk.Literals)
				}
				break
			}
			w += nn
		}
	}
	t.Logf("bad=%d/20000", bad)
}
