package probe

import (
	"bytes"
	"fmt"
	"io"
	"math/rand"
	"testing"

	"github.com/ulikunitz/lz"
)

func TestParserToDecoder(t *testing.T) {
	kinds := map[string]int{}
	first := map[string]string{}
	okc := 0
	for gi, g := range gens {
		for seed := 0; seed < 2000; seed++ {
			r := rand.New(rand.NewSource(int64(seed*19 + gi)))
			bs := pick(r, 8, 17, 64, 300)
			bc := lz.BufConfig{BufferSize: bs, ShrinkSize: r.Intn(bs), WindowSize: pick(r, 1, 2, 3, 8, 16, 100), BlockSize: pick(r, 1, 3, 8, 40, 200)}
			cfg := g.mk(r, bc)
			p, err := cfg.NewParser()
			if err != nil {
				continue
			}
			W := p.BufferConfig().WindowSize
			B := pick(r, 0, W+1, W+2, 2*W, 3*W+1)
			if B != 0 && B <= W {
				B = W + 1
			}
			data := genData(r, r.Intn(4*bs))
			w := &fw{}
			d, err := lz.NewDecoder(w, lz.DecoderConfig{WindowSize: W, BufferSize: B})
			if err != nil {
				t.Fatal(err)
			}
			effB := B
			if effB == 0 {
				effB = 2 * W
			}
			wp := lz.Wrap(bytes.NewReader(data), p)
			total := 0
			func() {
				defer func() {
					if e := recover(); e != nil {
						k := fmt.Sprint("panic/spin ", e)
						kinds[k]++
						if first[k] == "" {
							first[k] = fmt.Sprintf("seed=%d %s cfg=%+v W=%d B=%d", seed, g.name, cfg, W, B)
						}
					}
				}()
				for {
					var blk lz.Block
					n, err := wp.Parse(&blk, 0)
					if err == io.EOF {
						break
					}
					_, k, l, err := d.WriteBlock(blk)
					if err != nil {
						// classify
						win := total
						var item int64
						lits := 0
						for i := 0; i < k; i++ {
							lits += int(blk.Sequences[i].LitLen)
						}
						if k < len(blk.Sequences) {
							item = blk.Sequences[k].Len()
						} else {
							item = int64(len(blk.Literals) - l)
						}
						_ = win
						cls := "UNEXPECTED"
						if item > int64(effB-W) {
							cls = "known(item>B-W)"
						}
						key := fmt.Sprintf("%s err=%v", cls, err)
						kinds[key]++
						if first[key] == "" {
							first[key] = fmt.Sprintf("seed=%d %s cfg=%+v W=%d B=%d item=%d k=%d l=%d blk=%v", seed, g.name, cfg, W, B, item, k, l, blk.Sequences)
						}
						return
					}
					total += n
				}
				d.Flush()
				if !bytes.Equal(w.got, data) {
					kinds["output mismatch"]++
				} else {
					okc++
				}
			}()
		}
	}
	for k, v := range kinds {
		t.Logf("%-60s x%d %s", k, v, first[k])
	}
	t.Logf("ok=%d", okc)
}
