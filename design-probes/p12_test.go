package probe

import (
	"bytes"
	"fmt"
	"math/rand"
	"reflect"
	"testing"

	"github.com/ulikunitz/lz"
)

func hostileU32(r *rand.Rand, around int) uint32 {
	switch r.Intn(7) {
	case 0:
		return 0
	case 1:
		return uint32(around)
	case 2:
		return uint32(around + 1)
	case 3:
		if around > 0 {
			return uint32(around - 1)
		}
		return 1
	case 4:
		return ^uint32(0)
	case 5:
		return 1 << 31
	default:
		return uint32(r.Intn(20))
	}
}

func TestC05Hostile(t *testing.T) {
	bad := map[string]int{}
	first := map[string]string{}
	rejected, accepted := 0, 0
	for seed := 0; seed < 40000; seed++ {
		r := rand.New(rand.NewSource(int64(seed)))
		W := 1 + r.Intn(10)
		B := W + 1 + r.Intn(14)
		var b lz.DecoderBuffer
		b.Init(lz.DecoderConfig{WindowSize: W, BufferSize: B})
		pre := genData(r, r.Intn(B))
		b.Write(pre)
		rb := make([]byte, r.Intn(len(pre)+1))
		b.Read(rb)
		out := append([]byte{}, pre...)
		// block
		var blk lz.Block
		nl := r.Intn(12)
		blk.Literals = genData(r, nl)
		ns := 1 + r.Intn(4)
		rem := nl
		tmpLen := len(out)
		for i := 0; i < ns; i++ {
			win := tmpLen
			if win > W {
				win = W
			}
			s := lz.Seq{LitLen: hostileU32(r, rem), MatchLen: hostileU32(r, 3), Offset: hostileU32(r, win)}
			if r.Intn(2) == 0 { // mostly valid
				s.LitLen = uint32(r.Intn(rem + 1))
				w2 := tmpLen + int(s.LitLen)
				if w2 > W {
					w2 = W
				}
				if w2 > 0 {
					s.Offset = uint32(1 + r.Intn(w2))
					s.MatchLen = uint32(r.Intn(4))
				} else {
					s.Offset, s.MatchLen = 0, 0
				}
			}
			blk.Sequences = append(blk.Sequences, s)
			if int64(s.LitLen) <= int64(rem) {
				rem -= int(s.LitLen)
				tmpLen += int(s.LitLen)
			}
			if s.MatchLen < 100 {
				tmpLen += int(s.MatchLen)
			}
		}
		seqCopy := append([]lz.Seq{}, blk.Sequences...)
		litCopy := append([]byte{}, blk.Literals...)
		desc := fmt.Sprintf("seed=%d W=%d B=%d pre=%d read=%d blk=%v lits=%d", seed, W, B, len(pre), len(rb), blk.Sequences, nl)
		report := func(k string) {
			bad[k]++
			if first[k] == "" {
				first[k] = desc
			}
		}
		// model: first malformed index
		firstBad := -1
		{
			l := len(out)
			rem := nl
			for i, s := range blk.Sequences {
				if int64(s.LitLen) > int64(rem) {
					firstBad = i
					break
				}
				win := l + int(s.LitLen)
				if win > W {
					win = W
				}
				if (s.Offset == 0 && s.MatchLen > 0) || int64(s.Offset) > int64(win) {
					firstBad = i
					break
				}
				rem -= int(s.LitLen)
				l += int(s.LitLen) + int(s.MatchLen)
				if l > 1<<20 {
					break
				}
			}
		}
		func() {
			defer func() {
				if e := recover(); e != nil {
					report(fmt.Sprint("panic: ", e))
				}
			}()
			before := append([]byte{}, out...)
			_ = before
			n, k, l, err := b.WriteBlock(blk)
			if !reflect.DeepEqual(seqCopy, blk.Sequences) || !bytes.Equal(litCopy, blk.Literals) {
				report("caller block modified")
			}
			if firstBad >= 0 {
				if err == nil {
					report("malformed accepted")
					return
				}
				if k > firstBad {
					report("k beyond first malformed")
					return
				}
				rejected++
			} else if err == nil {
				accepted++
			}
			// expansion of k seqs + lits[sum:l]
			lits := blk.Literals
			sum := 0
			for i := 0; i < k; i++ {
				out, lits = refExpandSeq(out, lits, blk.Sequences[i])
				sum += int(blk.Sequences[i].LitLen)
			}
			if l < sum || l > nl {
				report("l out of range")
				return
			}
			if k < len(blk.Sequences) && l != sum {
				report("literals of failing sequence consumed")
			}
			if err == nil && (k != len(blk.Sequences) || l != nl) {
				report("success but not all consumed")
			}
			out = append(out, blk.Literals[sum:l]...)
			if n != len(out)-len(before) {
				report("n mismatch")
			}
			// check buffer content: unread part + window
			total := len(out)
			wn := total
			if wn > W {
				wn = W
			}
			if len(b.Data) < wn || !bytes.Equal(b.Data[len(b.Data)-wn:], out[total-wn:]) {
				report("window mismatch after call")
			}
			if !bytes.Equal(b.Data[b.R:], out[len(rb):]) {
				report("unread mismatch after call")
			}
			if b.Off != int64(total) {
				report("Off mismatch")
			}
		}()
	}
	for k, v := range bad {
		t.Logf("%-40s x%d %s", k, v, first[k])
	}
	t.Logf("kinds=%d rejected=%d accepted=%d", len(bad), rejected, accepted)
}

func TestC14C15(t *testing.T) {
	for gi, g := range gens {
		bad := map[string]int{}
		first := map[string]string{}
		nilCalls := 0
		for seed := 0; seed < 3000; seed++ {
			r := rand.New(rand.NewSource(int64(seed*23 + gi)))
			bs := pick(r, 1, 2, 3, 8, 17, 64, 100)
			bc := lz.BufConfig{BufferSize: bs, ShrinkSize: r.Intn(bs), WindowSize: pick(r, 1, 2, 3, 8, 100), BlockSize: pick(r, 1, 3, 8, 40, 200)}
			cfg := g.mk(r, bc)
			p, err := cfg.NewParser()
			if err != nil {
				continue
			}
			bc = p.BufferConfig()
			var oplog []string
			report := func(k string) {
				bad[k]++
				if first[k] == "" {
					first[k] = fmt.Sprintf("seed=%d cfg=%+v ops=%v", seed, cfg, oplog)
				}
			}
			var fed, dec []byte
			off, w := 0, 0
			func() {
				defer func() {
					if e := recover(); e != nil {
						report(fmt.Sprint("panic: ", e))
					}
				}()
				for op := 0; op < 60; op++ {
					switch r.Intn(9) {
					case 0, 1:
						d := genData(r, r.Intn(2*bs+2))
						n, err := p.Write(d)
						oplog = append(oplog, fmt.Sprintf("W%d/%d", n, len(d)))
						fed = append(fed, d[:n]...)
						if (err == lz.ErrFullBuffer) != (n < len(d)) || (err != nil && err != lz.ErrFullBuffer) {
							report("Write err")
						}
					case 2:
						d := genData(r, r.Intn(2*bs+2))
						rd := &planReader{data: d, r: r, mode: r.Intn(4)}
						n, err := p.ReadFrom(rd)
						oplog = append(oplog, fmt.Sprintf("R%d/%d:%v", n, len(d), err))
						if int(n) != rd.handed {
							report("ReadFrom n != bytes handed out by reader")
						}
						fed = append(fed, d[:n]...)
						held := len(fed) - off
						if err == lz.ErrFullBuffer && held != bc.BufferSize {
							report("ErrFullBuffer but not full")
						}
					case 3:
						k := p.Shrink()
						want := (w - off) - bc.ShrinkSize
						if want < 0 {
							want = 0
						}
						oplog = append(oplog, fmt.Sprintf("S%d", k))
						if k != want {
							report(fmt.Sprintf("Shrink returned %d want %d", k, want))
						}
						off += k
					case 4:
						if r.Intn(5) == 0 {
							var data []byte
							if r.Intn(2) == 0 {
								n := r.Intn(bs + 3)
								data = make([]byte, n, n+pick(r, 0, 7, 8, 300))
								copy(data, genData(r, n))
							}
							err := p.Reset(data)
							oplog = append(oplog, fmt.Sprintf("Reset%d:%v", len(data), err))
							if (err != nil) != (len(data) > bc.BufferSize) {
								report("Reset err")
							}
							if err != nil {
								p.Reset(nil)
								data = nil
							}
							fed, dec, off, w = append([]byte{}, data...), nil, 0, 0
						}
					case 5:
						u := len(fed) - w
						want := u
						if want > bc.BlockSize {
							want = bc.BlockSize
						}
						n, err := p.Parse(nil, 0)
						nilCalls++
						oplog = append(oplog, fmt.Sprintf("PN:%d,%v", n, err))
						if u == 0 {
							if n != 0 || err != lz.ErrEmptyBuffer {
								report("Parse(nil) on empty")
							}
						} else if n != want || err != nil {
							report("Parse(nil) n")
						}
						dec = append(dec, fed[w:w+n]...)
						w += n
					case 6, 7:
						var blk lz.Block
						n, err := p.Parse(&blk, pick(r, 0, 0, lz.NoTrailingLiterals))
						oplog = append(oplog, fmt.Sprintf("P:%d", n))
						if err != nil {
							continue
						}
						func() {
							defer func() {
								if e := recover(); e != nil {
									report("expander failed after nil-skip")
								}
							}()
							dec = expand(dec, blk)
						}()
						w += n
						if len(dec) != w || !bytes.Equal(dec, fed[:w]) {
							report("roundtrip")
							return
						}
					case 8:
						// probes
						held := len(fed) - off
						for _, x := range []int{off - 1, off, off + held - 1, off + held, off + held + 1, off + r.Intn(held+1)} {
							c, err := p.ByteAt(int64(x))
							switch {
							case x >= off && x < off+held:
								if err != nil || c != fed[x] {
									report("ByteAt inside")
								}
							case x == off+held:
								if err != lz.ErrEndOfBuffer {
									report(fmt.Sprintf("ByteAt at end: %v", err))
								}
							default:
								if err != lz.ErrOutOfBuffer {
									report("ByteAt outside")
								}
							}
							q := make([]byte, r.Intn(5))
							n, err := p.ReadAt(q, int64(x))
							if x >= off && x < off+held {
								avail := off + held - x
								wantN := len(q)
								if wantN > avail {
									wantN = avail
								}
								if n != wantN || !bytes.Equal(q[:n], fed[x:x+n]) {
									report("ReadAt data")
								}
								if (err == lz.ErrEndOfBuffer) != (len(q) > avail) || (err != nil && err != lz.ErrEndOfBuffer) {
									report("ReadAt err")
								}
							} else if err != lz.ErrOutOfBuffer || n != 0 {
								report(fmt.Sprintf("ReadAt outside: n=%d err=%v x=%d off=%d held=%d", n, err, x, off, held))
							}
						}
					}
					if len(fed)-off > bc.BufferSize {
						report("holds more than BufferSize")
					}
				}
			}()
		}
		t.Logf("%s: nilCalls=%d kinds=%d", g.name, nilCalls, len(bad))
		for k, v := range bad {
			t.Logf("   %-40s x%d %s", k, v, first[k])
		}
	}
}

func TestC16Accept(t *testing.T) {
	r := rand.New(rand.NewSource(9))
	mk := []func() lz.ParserConfig{
		func() lz.ParserConfig { return &lz.HPConfig{} },
		func() lz.ParserConfig { return &lz.BHPConfig{} },
		func() lz.ParserConfig { return &lz.DHPConfig{} },
		func() lz.ParserConfig { return &lz.BDHPConfig{} },
		func() lz.ParserConfig { return &lz.BUPConfig{} },
		func() lz.ParserConfig { return &lz.GSAPConfig{} },
		func() lz.ParserConfig { return &lz.OSAPConfig{} },
	}
	bad := map[string]int{}
	acc := 0
	for it := 0; it < 30000; it++ {
		c := mk[r.Intn(len(mk))]()
		v := reflect.ValueOf(c).Elem()
		for i := 0; i < v.NumField(); i++ {
			f := v.Field(i)
			name := v.Type().Field(i).Name
			switch f.Kind() {
			case reflect.Int:
				var x int
				switch r.Intn(5) {
				case 0:
					x = 0
				case 1:
					x = r.Intn(20)
				case 2:
					x = -r.Intn(5)
				case 3:
					x = 1 << uint(r.Intn(40))
				default:
					x = randInt(r)
				}
				if (name == "HashBits" || name == "HashBits1" || name == "HashBits2") && x > 16 {
					x = r.Intn(17)
				}
				if name == "BucketSize" && x > 16 {
					x = r.Intn(17)
				}
				f.SetInt(int64(x))
			case reflect.String:
				f.SetString([]string{"", "XZCost", "foo"}[r.Intn(3)])
			}
		}
		d := c.Clone()
		d.SetDefaults()
		want := d.Verify() == nil
		func() {
			defer func() {
				if e := recover(); e != nil {
					bad[fmt.Sprintf("panic %T: %v", c, e)]++
				}
			}()
			p, err := c.NewParser()
			if (err == nil) != want {
				bad[fmt.Sprintf("accept mismatch %T %+v: newparser err=%v verify ok=%v", c, c, err, want)]++
			}
			if err == nil {
				acc++
				p.Write([]byte("abcabcabcabc"))
				var blk lz.Block
				p.Parse(&blk, 0)
			}
		}()
	}
	for k, v := range bad {
		t.Logf("%s x%d", k, v)
	}
	t.Logf("kinds=%d accepted=%d", len(bad), acc)
}
