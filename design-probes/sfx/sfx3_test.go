package sfx

import (
	"bytes"
	"math/rand"
	"os"
	"path/filepath"
	"sort"
	"testing"
)

func allsrc() []byte {
	files, _ := filepath.Glob("/repo/*.go")
	more, _ := filepath.Glob("/repo/suffix/*.go")
	files = append(files, more...)
	sort.Strings(files)
	var all []byte
	for _, f := range files {
		d, _ := os.ReadFile(f)
		all = append(all, d...)
	}
	return all
}

func TestPartialCopySearch2(t *testing.T) {
	r := rand.New(rand.NewSource(11))
	src := allsrc()
	hi := func(p []byte) []byte {
		q := make([]byte, len(p))
		for i, c := range p {
			q[i] = 0xf0 + (c & 3)
		}
		return q
	}
	for it := 0; it < 40; it++ {
		var tail []byte
		switch it % 4 {
		case 0:
			per := 2 + r.Intn(50)
			base := make([]byte, per)
			for i := range base {
				base[i] = byte(r.Intn(3))
			}
			tail = hi(bytes.Repeat(base, 1+20000/per))
		case 1:
			tail = hi(fib(20000 + r.Intn(1000)))
		case 2:
			tail = hi(thue(20000))
		case 3:
			x := make([]byte, 50+r.Intn(500))
			for i := range x {
				x[i] = byte(r.Intn(2))
			}
			tail = hi(bytes.Repeat(x, 40))
		}
		var p []byte
		if it%2 == 0 {
			p = append(bytes.Repeat(src, 3), tail...)
		} else {
			p = append(append([]byte{}, tail...), bytes.Repeat(src, 3)...)
		}
		check(t, "combo", p)
	}
}
