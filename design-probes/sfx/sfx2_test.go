package sfx

import (
	"bytes"
	"math/rand"
	"os"
	"testing"
)

func TestPartialCopySearch(t *testing.T) {
	r := rand.New(rand.NewSource(7))
	which := os.Getenv("FAM2")
	rb := func(n, k int) []byte {
		p := make([]byte, n)
		for i := range p {
			p[i] = 'a' + byte(r.Intn(k))
		}
		return p
	}
	switch which {
	case "xx":
		for _, n := range []int{100, 1000, 10000, 100000} {
			for k := 2; k <= 4; k++ {
				x := rb(n, k)
				check(t, "xx", bytes.Repeat(x, 2))
				check(t, "xxx", bytes.Repeat(x, 3))
				check(t, "x8", bytes.Repeat(x, 8))
			}
		}
	case "nested":
		for it := 0; it < 30; it++ {
			x := rb(3+r.Intn(20), 2)
			for len(x) < 200000 {
				y := append([]byte{}, x...)
				if r.Intn(2) == 0 {
					y[r.Intn(len(y))] ^= 1
				}
				x = append(x, y...)
			}
			check(t, "nested", x)
		}
	case "fibglitch":
		for it := 0; it < 30; it++ {
			p := fib(100000 + r.Intn(100000))
			for g := r.Intn(6); g > 0; g-- {
				p[r.Intn(len(p))] ^= 3
			}
			check(t, "fibglitch", p)
		}
	case "longruns":
		for it := 0; it < 30; it++ {
			var p []byte
			for len(p) < 200000 {
				p = append(p, bytes.Repeat([]byte{'a' + byte(r.Intn(2))}, 1+r.Intn(3000))...)
			}
			check(t, "longruns", p)
		}
	case "abruns":
		// a^k b patterns with many equal B* substrings
		for it := 0; it < 30; it++ {
			var p []byte
			for len(p) < 100000 {
				k := 1 + r.Intn(4)
				p = append(p, bytes.Repeat([]byte{'a'}, k)...)
				p = append(p, 'b')
			}
			check(t, "abruns", p)
		}
	case "period2":
		for it := 0; it < 60; it++ {
			per := 2 + r.Intn(300)
			base := rb(per, 2+r.Intn(3))
			p := bytes.Repeat(base, 1+200000/per)
			for g := r.Intn(3); g > 0; g-- {
				p[r.Intn(len(p))] ^= 1
			}
			check(t, "period2", p)
		}
	}
}
