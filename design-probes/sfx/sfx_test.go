package sfx

import (
	"bytes"
	"math/rand"
	"os"
	"path/filepath"
	"sort"
	"testing"

	"github.com/ulikunitz/lz/suffix"
)

func check(t *testing.T, name string, p []byte) {
	orig := append([]byte{}, p...)
	sa := make([]int32, len(p))
	for i := range sa {
		sa[i] = int32(-7 - i)
	}
	suffix.Sort(p, sa)
	if !bytes.Equal(orig, p) {
		t.Fatalf("%s: text modified", name)
	}
	// linear-ish check
	n := len(p)
	rank := make([]int32, n+1)
	seen := make([]bool, n)
	for i, s := range sa {
		if s < 0 || int(s) >= n || seen[s] {
			t.Fatalf("%s: not a permutation at %d", name, i)
		}
		seen[s] = true
		rank[s] = int32(i)
	}
	rank[n] = -1
	for i := 1; i < n; i++ {
		a, b := sa[i-1], sa[i]
		if p[a] > p[b] || (p[a] == p[b] && rank[a+1] >= rank[b+1]) {
			t.Fatalf("%s: order violated at %d (n=%d)", name, i, n)
		}
	}
}

func fib(n int) []byte {
	a, b := []byte("b"), []byte("a")
	for len(b) < n {
		a, b = b, append(append([]byte{}, b...), a...)
	}
	return b[:n]
}
func thue(n int) []byte {
	p := make([]byte, n)
	for i := range p {
		x, c := i, 0
		for x > 0 {
			c ^= x & 1
			x >>= 1
		}
		p[i] = 'a' + byte(c)
	}
	return p
}
func debruijn(k, n int) []byte {
	a := make([]int, k*n)
	var seq []byte
	var db func(t, p int)
	db = func(t, p int) {
		if t > n {
			if n%p == 0 {
				for _, x := range a[1 : p+1] {
					seq = append(seq, 'a'+byte(x))
				}
			}
			return
		}
		a[t] = a[t-p]
		db(t+1, p)
		for j := a[t-p] + 1; j < k; j++ {
			a[t] = j
			db(t+1, t)
		}
	}
	db(1, 1)
	return seq
}

func TestFamilies(t *testing.T) {
	r := rand.New(rand.NewSource(1))
	which := os.Getenv("FAM")
	run := func(name string, f func()) {
		if which == "" || which == name {
			f()
		}
	}
	run("fib", func() {
		for _, n := range []int{10, 100, 1000, 10000, 100000, 1000000} {
			check(t, "fib", fib(n))
		}
	})
	run("thue", func() {
		for _, n := range []int{10, 100, 1000, 10000, 100000, 1000000} {
			check(t, "thue", thue(n))
		}
	})
	run("debruijn", func() {
		check(t, "db2", debruijn(2, 16))
		check(t, "db4", debruijn(4, 8))
		check(t, "db16", debruijn(16, 4))
	})
	run("runs2", func() {
		for it := 0; it < 200; it++ {
			var p []byte
			for len(p) < 5000 {
				p = append(p, bytes.Repeat([]byte{'a' + byte(r.Intn(2))}, 1+r.Intn(30))...)
			}
			check(t, "runs2", p)
		}
	})
	run("period", func() {
		for it := 0; it < 200; it++ {
			per := 1 + r.Intn(40)
			base := make([]byte, per)
			for i := range base {
				base[i] = 'a' + byte(r.Intn(3))
			}
			p := bytes.Repeat(base, 1+5000/per)
			// glitches
			for g := r.Intn(4); g > 0; g-- {
				p[r.Intn(len(p))] ^= 1
			}
			check(t, "period", p)
		}
	})
	run("rand2", func() {
		for it := 0; it < 200; it++ {
			p := make([]byte, 1+r.Intn(20000))
			for i := range p {
				p[i] = 'a' + byte(r.Intn(2))
			}
			check(t, "rand2", p)
		}
	})
	run("rand256", func() {
		for it := 0; it < 50; it++ {
			p := make([]byte, 1+r.Intn(100000))
			r.Read(p)
			check(t, "rand256", p)
		}
	})
	run("copies", func() {
		for it := 0; it < 200; it++ {
			p := make([]byte, 0, 30000)
			for len(p) < 20000 {
				if len(p) > 10 && r.Intn(3) > 0 {
					o := 1 + r.Intn(len(p))
					m := 1 + r.Intn(2000)
					for k := 0; k < m; k++ {
						p = append(p, p[len(p)-o])
					}
				} else {
					p = append(p, 'a'+byte(r.Intn(4)))
				}
			}
			check(t, "copies", p)
		}
	})
	run("source", func() {
		files, _ := filepath.Glob("/repo/*.go")
		more, _ := filepath.Glob("/repo/suffix/*.go")
		files = append(files, more...)
		sort.Strings(files)
		var all []byte
		for _, f := range files {
			d, _ := os.ReadFile(f)
			check(t, f, d)
			all = append(all, d...)
		}
		check(t, "allsrc", all)
		check(t, "allsrc x3", bytes.Repeat(all, 3))
	})
	run("small", func() {
		for n := 0; n <= 14; n++ {
			for x := 0; x < 1<<n; x++ {
				p := make([]byte, n)
				for i := range p {
					p[i] = 'a' + byte(x>>i&1)
				}
				check(t, "small", p)
			}
		}
	})
}
