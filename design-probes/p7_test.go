package probe

import (
	"bytes"
	"errors"
	"fmt"
	"math/rand"
	"testing"

	"github.com/ulikunitz/lz"
)

type sentinel struct{ msg string }

// writer with fault plan and spin detection
type fw struct {
	got        []byte
	emptyRun   int
	calls      int
	r          *rand.Rand
	faultProb  int
	injected   error
}

var errInj = errors.New("injected writer error")

func (w *fw) Write(p []byte) (int, error) {
	w.calls++
	if len(p) == 0 {
		w.emptyRun++
		if w.emptyRun > 50 {
			panic(sentinel{"spin"})
		}
		return 0, nil
	}
	w.emptyRun = 0
	if w.faultProb > 0 && w.r.Intn(w.faultProb) == 0 {
		k := w.r.Intn(len(p))
		w.got = append(w.got, p[:k]...)
		return k, errInj
	}
	w.got = append(w.got, p...)
	return len(p), nil
}

func refExpandSeq(out []byte, lits []byte, s lz.Seq) ([]byte, []byte) {
	out = append(out, lits[:s.LitLen]...)
	lits = lits[s.LitLen:]
	for k := 0; k < int(s.MatchLen); k++ {
		out = append(out, out[len(out)-int(s.Offset)])
	}
	return out, lits
}

func TestDecoderBufferModel(t *testing.T) {
	viol := map[string]int{}
	first := map[string]string{}
	for seed := 0; seed < 20000; seed++ {
		r := rand.New(rand.NewSource(int64(seed)))
		W := r.Intn(12)
		B := W + 1 + r.Intn(14)
		if W == 0 {
			continue
		}
		var b lz.DecoderBuffer
		if err := b.Init(lz.DecoderConfig{WindowSize: W, BufferSize: B}); err != nil {
			t.Fatal(err)
		}
		var oplog []string
		report := func(k string) {
			viol[k]++
			if first[k] == "" {
				first[k] = fmt.Sprintf("seed=%d W=%d B=%d ops=%v", seed, W, B, oplog)
			}
		}
		var out []byte // model stream
		rd := 0        // bytes read
		var got []byte
		func() {
			defer func() {
				if e := recover(); e != nil {
					report(fmt.Sprint("panic: ", e))
				}
			}()
			for op := 0; op < 60; op++ {
				total := len(out)
				win := total
				if win > W {
					win = W
				}
				switch r.Intn(7) {
				case 0:
					c := byte('a' + r.Intn(3))
					err := b.WriteByte(c)
					oplog = append(oplog, fmt.Sprintf("WB:%v", err))
					if err == nil {
						out = append(out, c)
					} else if err != lz.ErrFullBuffer {
						report("WriteByte err")
					}
				case 1:
					p := make([]byte, r.Intn(B+3))
					for i := range p {
						p[i] = byte('a' + r.Intn(3))
					}
					n, err := b.Write(p)
					oplog = append(oplog, fmt.Sprintf("W%d:%d,%v", len(p), n, err))
					if err == nil {
						if n != len(p) {
							report("Write n")
						}
						out = append(out, p...)
					} else if n != 0 || err != lz.ErrFullBuffer {
						report("Write err/n")
					}
				case 2:
					if win == 0 {
						continue
					}
					o := 1 + r.Intn(win)
					m := r.Intn(B + 3)
					n, err := b.WriteMatch(uint32(m), uint32(o))
					oplog = append(oplog, fmt.Sprintf("WM%d,%d:%d,%v", m, o, n, err))
					if err == nil {
						if n != m {
							report("WriteMatch n")
						}
						for k := 0; k < m; k++ {
							out = append(out, out[len(out)-o])
						}
					} else if n != 0 {
						report("WriteMatch n on err")
					}
				case 3:
					// valid block
					var blk lz.Block
					tmp := append([]byte{}, out...)
					ns := r.Intn(4)
					for i := 0; i < ns; i++ {
						ll := r.Intn(4)
						lit := make([]byte, ll)
						for j := range lit {
							lit[j] = byte('a' + r.Intn(3))
						}
						blk.Literals = append(blk.Literals, lit...)
						tmp = append(tmp, lit...)
						wn := len(tmp)
						if wn > W {
							wn = W
						}
						if wn == 0 {
							blk.Sequences = append(blk.Sequences, lz.Seq{LitLen: uint32(ll)})
							continue
						}
						o := 1 + r.Intn(wn)
						m := r.Intn(8)
						blk.Sequences = append(blk.Sequences, lz.Seq{LitLen: uint32(ll), MatchLen: uint32(m), Offset: uint32(o)})
						for k := 0; k < m; k++ {
							tmp = append(tmp, tmp[len(tmp)-o])
						}
					}
					tl := r.Intn(5)
					for j := 0; j < tl; j++ {
						blk.Literals = append(blk.Literals, byte('a'+r.Intn(3)))
					}
					offBefore := b.Off
					n, k, l, err := b.WriteBlock(blk)
					oplog = append(oplog, fmt.Sprintf("WBlk%v+%d:%d,%d,%d,%v", blk.Sequences, len(blk.Literals), n, k, l, err))
					// model: apply k seqs and (if err==nil) rest lits
					lits := blk.Literals
					before := len(out)
					for i := 0; i < k; i++ {
						out, lits = refExpandSeq(out, lits, blk.Sequences[i])
					}
					if err == nil {
						if k != len(blk.Sequences) {
							report("WriteBlock k on success")
						}
						out = append(out, lits...)
						lits = nil
					}
					if l != len(blk.Literals)-len(lits) {
						report("WriteBlock l")
					}
					if n != len(out)-before {
						report("WriteBlock n")
					}
					if b.Off != offBefore+int64(len(out)-before) {
						report("WriteBlock Off")
					}
				case 4:
					p := make([]byte, r.Intn(B+2))
					n, _ := b.Read(p)
					oplog = append(oplog, fmt.Sprintf("R%d", n))
					got = append(got, p[:n]...)
					rd += n
				case 5:
					var bb bytes.Buffer
					n, _ := b.WriteTo(&bb)
					oplog = append(oplog, fmt.Sprintf("WT%d", n))
					got = append(got, bb.Bytes()...)
					rd += int(n)
				case 6:
					if r.Intn(10) == 0 {
						b.Reset()
						oplog = append(oplog, "Reset")
						out, got, rd = nil, nil, 0
					}
				}
				if !bytes.Equal(got, out[:rd]) {
					report("output mismatch")
					return
				}
				if b.Off != int64(len(out)) {
					report("Off != total")
				}
				// unread retained
				if !bytes.Equal(b.Data[b.R:], out[rd:]) {
					report("unread bytes lost")
					return
				}
				wn := len(out)
				if wn > W {
					wn = W
				}
				if len(b.Data) < wn || !bytes.Equal(b.Data[len(b.Data)-wn:], out[len(out)-wn:]) {
					report("window lost")
					return
				}
			}
		}()
	}
	for k, v := range viol {
		t.Logf("   %-40s x%d  first: %s", k, v, first[k])
	}
	t.Logf("kinds=%d", len(viol))
}
