package props

import (
	"bytes"
	"fmt"
	"io"
	"math/rand"

	"github.com/ulikunitz/lz"
	"verif/core"
	"verif/ref"
)

// ---- concrete decoder history -----------------------------------------------

// DSeq is a sequence of a block operation. For valid sequences the offset is
// resolved against the model when the history runs (OK>0), hostile sequences
// carry absolute values (OK==0).
type DSeq struct {
	L  uint32 `json:"l"`
	M  uint32 `json:"m"`
	OK int    `json:"ok,omitempty"` // 0 absolute O; 1 offset 1; 2 max valid; 3 max valid-1; 4 (O mod max valid)+1
	O  uint32 `json:"o,omitempty"`
	X  uint32 `json:"x,omitempty"` // Aux
}

// DOp is one decoder operation.
type DOp struct {
	K    string `json:"k"` // byte write match block read writeto flush reset reinit
	Data []byte `json:"d,omitempty"`
	Seqs []DSeq `json:"s,omitempty"`
	N    int    `json:"n,omitempty"`
	// Hostile marks operations that contain attacker-chosen values.
	Hostile bool `json:"h,omitempty"`
	// reinit: new configuration (Re false: the configuration of the case)
	Re bool `json:"re,omitempty"`
	W2 int  `json:"w2,omitempty"`
	B2 int  `json:"b2,omitempty"`
	// writeto on a DecoderBuffer: the writer accepts part of the data and
	// fails (nil: it accepts everything)
	F *WStep `json:"f,omitempty"`
}

// WStep is one step of a writer plan.
type WStep struct {
	Acc  int  `json:"a"` // 0: 0 bytes, 1: 1 byte, 2: len/2, 3: len-1, 4: len
	Fail bool `json:"f"`
	// E selects the error value: 0 the harness' own error, 1 io.ErrShortWrite
	// (what bufio.Writer and io.MultiWriter report), 2 io.ErrClosedPipe,
	// 3 io.EOF, 4 lz.ErrFullBuffer, 5 lz.ErrEmptyBuffer.
	E int `json:"e,omitempty"`
}

// writerErr returns the error value of a fault step.
func writerErr(e int) error {
	switch e {
	case 1:
		return io.ErrShortWrite
	case 2:
		return io.ErrClosedPipe
	case 3:
		return io.EOF
	case 4:
		// the writer is a ParserBuffer (decode-to-reparse pipeline): its
		// error is the sentinel the decoder uses internally
		return lz.ErrFullBuffer
	case 5:
		return lz.ErrEmptyBuffer
	}
	return ErrInjected
}

// DCase is a concrete decoder history.
type DCase struct {
	W, B  int           `json:"-"`
	WS    int           `json:"w"`
	BS    int           `json:"b"`
	SUT   string        `json:"sut"` // buffer | decoder
	Ops   []DOp         `json:"ops"`
	Plan  []WStep       `json:"plan,omitempty"`  // writer plan by writer call index
	Fault map[int]WStep `json:"fault,omitempty"` // sparse plan: writer call index -> step
	// Rich: the decoder's writer also has Flush/Sync/WriteString/WriteByte.
	Rich bool `json:"rich,omitempty"`
}

// spinSentinel is the panic value of the writer when a call does not terminate.
type spinSentinel struct{ calls, empty int }

// planWriter records what it accepts, injects faults by call index and counts
// drains inside one decoder call.
type planWriter struct {
	accepted []byte
	calls    int
	fault    map[int]WStep
	// per decoder call
	callCalls, callEmpty, budget int
	failedInCall                 bool
	faultsSeen                   int
	// lastErr is the error of the most recent fault.
	lastErr error
}

func (w *planWriter) begin(argBytes int) {
	w.callCalls, w.callEmpty, w.failedInCall = 0, 0, false
	w.budget = 64 + 8*argBytes
}

func (w *planWriter) Write(p []byte) (int, error) {
	idx := w.calls
	w.calls++
	w.callCalls++
	if len(p) == 0 {
		w.callEmpty++
	} else {
		w.callEmpty = 0
	}
	if w.callEmpty >= 64 || w.callCalls > w.budget {
		panic(spinSentinel{w.callCalls, w.callEmpty})
	}
	if st, ok := w.fault[idx]; ok && st.Fail {
		n := 0
		switch st.Acc {
		case 1:
			n = 1
		case 2:
			n = len(p) / 2
		case 3:
			n = len(p) - 1
		case 4:
			n = len(p)
		}
		if n < 0 {
			n = 0
		}
		if n > len(p) {
			n = len(p)
		}
		w.accepted = append(w.accepted, p[:n]...)
		w.failedInCall = true
		w.faultsSeen++
		w.lastErr = writerErr(st.E)
		return n, w.lastErr
	}
	w.accepted = append(w.accepted, p...)
	return len(p), nil
}

// richWriter offers the optional methods of the common writers of the
// standard library (bufio.Writer, bytes.Buffer, os.File) on top of a
// planWriter: a decoder that starts to use one of them must still deliver
// every byte once and surface the errors of Write.
type richWriter struct {
	*planWriter
	flushes int
}

// ReadFrom copies like io.Copy does for a writer without ReadFrom: chunks of
// 32 KiB through Write, stopping at the first error or short write.
func (w *richWriter) ReadFrom(r io.Reader) (n int64, err error) {
	buf := make([]byte, 32<<10)
	for {
		k, rerr := r.Read(buf)
		if k > 0 {
			m, werr := w.planWriter.Write(buf[:k])
			n += int64(m)
			if werr != nil {
				return n, werr
			}
			if m < k {
				return n, io.ErrShortWrite
			}
		}
		if rerr == io.EOF {
			return n, nil
		}
		if rerr != nil {
			return n, rerr
		}
	}
}

func (w *richWriter) Flush() error { w.flushes++; return nil }
func (w *richWriter) Sync() error  { return nil }
func (w *richWriter) WriteString(s string) (int, error) {
	return w.planWriter.Write([]byte(s))
}
func (w *richWriter) WriteByte(c byte) error {
	_, err := w.planWriter.Write([]byte{c})
	return err
}

// writerFor returns the io.Writer handed to the decoder for a plan writer.
func (dc *DCase) writerFor(w *planWriter) io.Writer {
	if dc.Rich {
		return &richWriter{planWriter: w}
	}
	return w
}

// callerCopy returns a copy of p with spare capacity, as a caller's scratch
// slice has it; scribble overwrites the copy (and its spare capacity) after
// the call: a decoder that kept the caller's slice instead of copying it then
// shows the garbage in its output.
func callerCopy(p []byte) []byte {
	c := make([]byte, len(p), len(p)+16)
	copy(c, p)
	return c
}

func scribble(p []byte) {
	p = p[:cap(p)]
	for i := range p {
		p[i] ^= 0x5a
	}
}

// DFail is a failed check of the decoder executor.
type DFail struct {
	Check string // check id, see the list in DESIGN.md
	Class string // finer class for known findings
	Msg   string
	At    int
}

// DRun is the state of a decoder history execution.
type DRun struct {
	dc    *DCase
	st    *core.Stats
	model ref.DecModel
	buf   lz.DecoderBuffer
	dec   *lz.Decoder
	w     *planWriter
	// effective configuration
	W, B int
	fail *DFail
	// owned decides which failed checks stop the run as violations
	owned map[string]bool
	// cfg is the configuration of the last Init
	cfg lz.DecoderConfig
	// maxB is the largest BufferSize of the history: Init on a used buffer
	// keeps its capacity, which then counts as BufferSize
	maxB int
}

// sizeLimit is the length beyond which nothing can have been stored.
func (r *DRun) sizeLimit() int64 {
	if r.B > r.maxB {
		r.maxB = r.B
	}
	return int64(2*r.maxB) + 1<<16
}

// reinitCfg returns the configuration a reinit operation asks for and the
// sizes the documentation promises for it.
func (r *DRun) reinitCfg(op *DOp) (cfg lz.DecoderConfig, w, b int) {
	cfg = cfgOf(r.dc)
	if op.Re {
		cfg = lz.DecoderConfig{WindowSize: op.W2, BufferSize: op.B2}
	}
	w, b = cfg.WindowSize, cfg.BufferSize
	if w == 0 {
		w = 8 << 20
	}
	if b == 0 {
		b = 2 * w
	}
	return cfg, w, b
}

const (
	errStrMatchLen = "lz: MatchLen out of range"
	errStrOffset   = "lz: Offset out of range"
	errStrLitLen   = "lz: LitLen out of range"
)

func (r *DRun) failf(at int, check, class, format string, args ...any) {
	if r.fail == nil {
		r.fail = &DFail{Check: check, Class: class, Msg: fmt.Sprintf(format, args...), At: at}
	}
}

func cfgOf(dc *DCase) lz.DecoderConfig {
	return lz.DecoderConfig{WindowSize: dc.WS, BufferSize: dc.BS}
}

// resolve turns the sequence specs into concrete sequences given the number
// of bytes in the model stream, and reports the index of the first malformed
// sequence (or -1) together with the expansions.
func (r *DRun) resolve(op *DOp) (seqs []lz.Seq, firstBad int) {
	firstBad = -1
	n := int64(len(r.model.Out))
	rem := int64(len(op.Data))
	seqs = make([]lz.Seq, len(op.Seqs))
	for i, s := range op.Seqs {
		q := lz.Seq{LitLen: s.L, MatchLen: s.M, Aux: s.X}
		avail := n
		if int64(s.L) <= rem {
			avail += int64(s.L)
		}
		maxValid := avail
		if maxValid > int64(r.W) {
			maxValid = int64(r.W)
		}
		switch s.OK {
		case 0:
			q.Offset = s.O
		case 1:
			if maxValid >= 1 {
				q.Offset = 1
			}
		case 2:
			q.Offset = uint32(maxValid)
		case 3:
			if maxValid >= 2 {
				q.Offset = uint32(maxValid - 1)
			} else {
				q.Offset = uint32(maxValid)
			}
		case 5:
			// small non-power-of-two offsets (long overlapping copies)
			o := int64([]int{3, 5, 7, 6, 9, 100}[int(s.O)%6])
			if o > maxValid {
				o = maxValid
			}
			if o > 0 {
				q.Offset = uint32(o)
			}
		default:
			if maxValid > 0 {
				q.Offset = uint32(int64(s.O)%maxValid) + 1
			}
		}
		if s.OK != 0 && q.Offset == 0 {
			// no valid offset exists (empty window): make it a pure
			// literal sequence
			q.MatchLen = 0
		}
		seqs[i] = q
		bad := int64(q.LitLen) > rem ||
			(q.Offset == 0 && q.MatchLen > 0) ||
			int64(q.Offset) > maxValid
		if bad && firstBad < 0 {
			firstBad = i
		}
		if firstBad < 0 {
			rem -= int64(q.LitLen)
			n += int64(q.LitLen) + int64(q.MatchLen)
		}
	}
	return seqs, firstBad
}

// expected computes the bytes a block call must have appended given the
// reported k and l. ok is false if (k, l) is not a consistent report.
func expectedAppend(out []byte, seqs []lz.Seq, lits []byte, k, l int) (app []byte, ok bool, why string) {
	if k < 0 || k > len(seqs) {
		return nil, false, fmt.Sprintf("k=%d outside [0,%d]", k, len(seqs))
	}
	if l < 0 || l > len(lits) {
		return nil, false, fmt.Sprintf("l=%d outside [0,%d]", l, len(lits))
	}
	sumLit, _ := ref.SumLit(seqs[:k])
	if sumLit > int64(l) {
		return nil, false, fmt.Sprintf("l=%d smaller than the %d literals of the %d consumed sequences", l, sumLit, k)
	}
	if k < len(seqs) && int64(l) != sumLit {
		return nil, false, fmt.Sprintf("k=%d < %d sequences but l=%d differs from the literals %d of the consumed sequences (part of the failing sequence consumed)", k, len(seqs), l, sumLit)
	}
	base := len(out)
	tmp := append([]byte(nil), out...)
	tmp, err := ref.Expand(tmp, seqs[:k], lits[:sumLit])
	if err != nil {
		return nil, false, "consumed sequences are not executable: " + err.Error()
	}
	tmp = append(tmp, lits[sumLit:l]...)
	return tmp[base:], true, ""
}

// invariants checks the DecoderBuffer against the model after a step.
func (r *DRun) invariants(at int, hostile bool) {
	b := &r.buf
	contentCheck, class := "append-wrong", "buffer-content"
	if hostile {
		contentCheck, class = "not-atomic", "buffer-content-after-rejection"
	}
	if !(0 <= b.R && b.R <= len(b.Data)) {
		r.failf(at, "struct-invariant", "R-out-of-range", "R=%d outside [0,len(Data)=%d]", b.R, len(b.Data))
		return
	}
	if un := len(r.model.Unread()); len(b.Data)-b.R != un && r.owned["count-n"] && !hostile {
		// the calls so far reported counts that add up to un unread bytes
		// (the model follows the reported counts), the buffer holds another
		// number: a call appended more or fewer bytes than it reported
		r.failf(at, "count-n", "unread-length", "the buffer holds %d unread bytes, the counts reported by the calls so far add up to %d", len(b.Data)-b.R, un)
		return
	}
	if !bytes.Equal(b.Data[b.R:], r.model.Unread()) {
		r.failf(at, contentCheck, class, "unread bytes Data[R:] (%d bytes) differ from the %d unread bytes of the reference stream", len(b.Data)-b.R, len(r.model.Unread()))
		return
	}
	k := len(r.model.Out)
	if k > r.W {
		k = r.W
	}
	if len(b.Data) < k || !bytes.Equal(b.Data[len(b.Data)-k:], r.model.Out[len(r.model.Out)-k:]) {
		r.failf(at, "window-lost", "window", "the last min(WindowSize,written)=%d bytes are not addressable (len(Data)=%d)", k, len(b.Data))
		return
	}
	if b.Off != int64(len(r.model.Out)) {
		r.failf(at, "off", "Off", "Off=%d but %d bytes were written since Init/Reset", b.Off, len(r.model.Out))
	}
	// the window is also addressable through ByteAtEnd: offsets 1, k and one
	// in between must give the bytes of the reference stream; offsets outside
	// of the data (0, len+1, negative, huge) must not panic
	n := len(r.model.Out)
	for _, off := range []int{1, k, 1 + (at*7)%(k+1), 0, len(b.Data) + 1, -1, -1 << 62, 1<<62 + at} {
		var c byte
		if pv := call(func() { c = b.ByteAtEnd(off) }); pv != nil {
			r.failf(at, "panic", "panic-ByteAtEnd", "ByteAtEnd(%d) with %d bytes buffered: %s", off, len(b.Data), fmtPanic(pv))
			return
		}
		if off >= 1 && off <= k && c != r.model.Out[n-off] {
			r.failf(at, "window-lost", "ByteAtEnd", "ByteAtEnd(%d) = %#x, the byte %d positions before the end of the stream is %#x", off, c, off, r.model.Out[n-off])
			return
		}
	}
}

func errIs(err error, s string) bool { return err != nil && err.Error() == s }

// RunDecoderHistory executes dc under the generic checks. owned lists the
// check ids that are violations for the calling property; a failing check that
// is not owned stops the history silently (it is counted).
func RunDecoderHistory(dc *DCase, st *core.Stats, owned map[string]bool) *DFail {
	r, f, ok := newDRun(dc, st, owned)
	if !ok {
		return f
	}
	for i := range dc.Ops {
		if f, stop := r.runOp(i); stop {
			return f
		}
	}
	return nil
}

// RunDecoderDuo executes two decoder histories on two objects interleaved:
// bit i of sched tells whose operation comes next. which reports the object a
// returned failure belongs to.
func RunDecoderDuo(dcs [2]*DCase, sched []byte, st *core.Stats, owned map[string]bool) (f *DFail, which int) {
	var rs [2]*DRun
	for g := range rs {
		r, f, ok := newDRun(dcs[g], st, owned)
		if !ok {
			return f, g
		}
		rs[g] = r
	}
	var next [2]int
	var stopped [2]bool
	for step := 0; ; step++ {
		g := 0
		if len(sched) > 0 {
			g = int(sched[(step/8)%len(sched)]>>(uint(step)%8)) & 1
		}
		if stopped[g] || next[g] >= len(dcs[g].Ops) {
			g = 1 - g
		}
		if stopped[g] || next[g] >= len(dcs[g].Ops) {
			return nil, 0
		}
		f, stop := rs[g].runOp(next[g])
		next[g]++
		if f != nil {
			return f, g
		}
		if stop {
			stopped[g] = true
		}
	}
}

// newDRun creates the object under test and its model. ok is false if the
// history cannot run (f may hold a failure).
func newDRun(dc *DCase, st *core.Stats, owned map[string]bool) (r *DRun, f *DFail, ok bool) {
	r = &DRun{dc: dc, st: st, owned: owned}
	cfg := cfgOf(dc)
	r.w = &planWriter{fault: dc.Fault}
	var ierr error
	if dc.SUT == "buffer" {
		if pv := call(func() { ierr = r.buf.Init(cfg) }); pv != nil {
			return nil, &DFail{Check: "panic", Class: "panic-init", Msg: fmtPanic(pv)}, false
		}
		r.W, r.B = r.buf.WindowSize, r.buf.BufferSize
	} else {
		if pv := call(func() { r.dec, ierr = lz.NewDecoder(dc.writerFor(r.w), cfg) }); pv != nil {
			return nil, &DFail{Check: "panic", Class: "panic-init", Msg: fmtPanic(pv)}, false
		}
		c := cfg
		c.SetDefaults()
		r.W, r.B = c.WindowSize, c.BufferSize
	}
	if ierr != nil {
		st.Inc("config_rejected")
		return nil, nil, false
	}
	st.Inc("histories")
	if dc.Rich && dc.SUT == "decoder" {
		st.Inc("histories_with_flushable_writer")
	}
	return r, nil, true
}

// runOp executes operation i. stop is set when the history ends here: with a
// failure of a check the calling property owns (f), or silently.
func (r *DRun) runOp(i int) (f *DFail, stop bool) {
	dc, st := r.dc, r.st
	op := &dc.Ops[i]
	r.sizeLimit() // records the largest geometry so far
	if dc.SUT == "buffer" {
		r.stepBuffer(i, op)
	} else {
		r.stepDecoder(i, op)
	}
	if r.fail != nil {
		if r.owned[r.fail.Check] {
			return r.fail, true
		}
		st.Inc("foreign_check_failed:" + r.fail.Check)
		switch r.fail.Check {
		case "refused-valid", "count-n", "off":
			// the content model is still in step: the history goes on
			r.fail = nil
			return nil, false
		}
		return nil, true
	}
	return nil, false
}

func (r *DRun) stepBuffer(i int, op *DOp) {
	b := &r.buf
	st := r.st
	m := &r.model
	preR := b.R
	preLen := len(b.Data)
	full := preLen >= b.BufferSize
	switch op.K {
	case "byte":
		var err error
		if pv := call(func() { err = b.WriteByte(op.Data[0]) }); pv != nil {
			r.failf(i, "panic", "panic-WriteByte", "%s", fmtPanic(pv))
			return
		}
		switch {
		case err == nil:
			m.Out = append(m.Out, op.Data[0])
		case err == lz.ErrFullBuffer:
			st.Inc("buffer_refused_full")
		default:
			r.failf(i, "unexpected-error", "WriteByte-error", "WriteByte returned %v", err)
			return
		}
	case "write":
		var n int
		var err error
		arg := callerCopy(op.Data)
		if pv := call(func() { n, err = b.Write(arg) }); pv != nil {
			r.failf(i, "panic", "panic-Write", "%s", fmtPanic(pv))
			return
		}
		scribble(arg)
		switch {
		case err == nil:
			if n != len(op.Data) {
				r.failf(i, "count-n", "Write-n", "Write of %d bytes returned n=%d, nil", len(op.Data), n)
				return
			}
			m.Out = append(m.Out, op.Data...)
		case err == lz.ErrFullBuffer:
			st.Inc("buffer_refused_full")
			if n != 0 {
				r.failf(i, "count-n", "Write-n", "Write returned n=%d with ErrFullBuffer", n)
				return
			}
		default:
			r.failf(i, "unexpected-error", "Write-error", "Write returned %v", err)
			return
		}
	case "match":
		seqs, bad := r.resolve(&DOp{Seqs: op.Seqs})
		s := seqs[0]
		var n int
		var err error
		if pv := call(func() { n, err = b.WriteMatch(s.MatchLen, s.Offset) }); pv != nil {
			r.failf(i, "panic", "panic-WriteMatch", "WriteMatch(%d,%d): %s", s.MatchLen, s.Offset, fmtPanic(pv))
			return
		}
		if bad >= 0 {
			st.Inc("hostile_matches")
			if err == nil {
				r.failf(i, "malformed-accepted", "WriteMatch-accepted", "WriteMatch(m=%d,o=%d) accepted with %d bytes written and WindowSize %d", s.MatchLen, s.Offset, len(m.Out), r.W)
				return
			}
			if n != 0 {
				r.failf(i, "count-n", "WriteMatch-n", "rejected WriteMatch returned n=%d", n)
				return
			}
			st.Inc("hostile_rejected")
			r.invariants(i, true)
			return
		}
		if err == nil && int64(s.MatchLen) > r.sizeLimit() {
			r.failf(i, "oversized-accepted", "oversized-accepted", "WriteMatch(m=%d) accepted by a buffer with BufferSize %d", s.MatchLen, r.maxB)
			return
		}
		switch {
		case err == nil:
			if n != int(s.MatchLen) {
				r.failf(i, "count-n", "WriteMatch-n", "WriteMatch(m=%d) returned n=%d", s.MatchLen, n)
				return
			}
			if s.MatchLen > 0 {
				m.AppendMatch(s.MatchLen, s.Offset)
				st.Inc("matches_written")
				if s.Offset < s.MatchLen {
					st.Inc("overlapping_matches")
				}
				if int(s.Offset) == r.W {
					st.Inc("offset==WindowSize")
				}
			}
		case err == lz.ErrFullBuffer, errIs(err, errStrMatchLen):
			st.Inc("buffer_refused_full")
			if n != 0 {
				r.failf(i, "count-n", "WriteMatch-n", "refused WriteMatch returned n=%d", n)
				return
			}
		case errIs(err, errStrOffset):
			r.failf(i, "valid-offset-rejected", "WriteMatch-offset", "WriteMatch(m=%d,o=%d) rejected with %v although %d bytes are written and WindowSize is %d", s.MatchLen, s.Offset, err, len(m.Out), r.W)
			return
		default:
			r.failf(i, "unexpected-error", "WriteMatch-error", "WriteMatch returned %v", err)
			return
		}
	case "block":
		seqs, bad := r.resolve(op)
		lits := callerCopy(op.Data)
		seqArg := append([]lz.Seq(nil), seqs...)
		var n, k, l int
		var err error
		if pv := call(func() { n, k, l, err = b.WriteBlock(lz.Block{Sequences: seqArg, Literals: lits}) }); pv != nil {
			r.failf(i, "panic", "panic-WriteBlock", "WriteBlock(%+v, %d literals): %s", seqs, len(lits), fmtPanic(pv))
			return
		}
		r.afterBlock(i, op, seqs, bad, lits, seqArg, n, k, l, err, false)
		// the block memory belongs to the caller again (parsers reuse it)
		scribble(lits)
		for j := range seqArg {
			seqArg[j] = lz.Seq{LitLen: 0xdead, MatchLen: 0xbeef, Offset: 1}
		}
		if r.fail != nil {
			return
		}
		if preR > 0 && full && n > 0 {
			st.Inc("block_calls_that_discarded_and_appended")
		}
	case "read":
		p := make([]byte, op.N)
		var n int
		var err error
		if pv := call(func() { n, err = b.Read(p) }); pv != nil {
			r.failf(i, "panic", "panic-Read", "%s", fmtPanic(pv))
			return
		}
		want := len(m.Unread())
		if want > op.N {
			want = op.N
		}
		if err != nil || n != want || !bytes.Equal(p[:want], m.Unread()[:want]) {
			r.failf(i, "read-bytes", "Read", "Read(%d) returned n=%d err=%v; want the next %d bytes of the stream", op.N, n, err, want)
			return
		}
		m.ReadPos += n
		st.Add("bytes_read", int64(n))
	case "writeto":
		var rec bytes.Buffer
		var n int64
		var err error
		if op.F != nil {
			// a writer that accepts a part and fails: the accepted bytes
			// are handed out, the rest stays unread
			fw := &planWriter{fault: map[int]WStep{0: *op.F}}
			fw.begin(1 << 20)
			if pv := call(func() { n, err = b.WriteTo(fw) }); pv != nil {
				r.failf(i, "panic", "panic-WriteTo", "%s", fmtPanic(pv))
				return
			}
			un := m.Unread()
			if fw.calls != 1 || err != fw.lastErr || n != int64(len(fw.accepted)) || len(fw.accepted) > len(un) || !bytes.Equal(fw.accepted, un[:len(fw.accepted)]) {
				r.failf(i, "read-bytes", "WriteTo-failing-writer", "WriteTo on a writer that accepted %d of %d unread bytes and returned %v: n=%d err=%v (%d writer calls)", len(fw.accepted), len(un), fw.lastErr, n, err, fw.calls)
				return
			}
			m.ReadPos += len(fw.accepted)
			st.Add("bytes_read", n)
			st.Inc("writeto_with_failing_writer")
			break
		}
		if pv := call(func() { n, err = b.WriteTo(&rec) }); pv != nil {
			r.failf(i, "panic", "panic-WriteTo", "%s", fmtPanic(pv))
			return
		}
		if err != nil || n != int64(len(m.Unread())) || !bytes.Equal(rec.Bytes(), m.Unread()) {
			r.failf(i, "read-bytes", "WriteTo", "WriteTo returned n=%d err=%v and %d bytes; want the %d unread bytes", n, err, rec.Len(), len(m.Unread()))
			return
		}
		m.ReadPos = len(m.Out)
		st.Add("bytes_read", n)
	case "reset":
		if pv := call(func() { b.Reset() }); pv != nil {
			r.failf(i, "panic", "panic-Reset", "%s", fmtPanic(pv))
			return
		}
		m.Reset()
		st.Inc("resets")
	case "badinit":
		var err error
		cfg := lz.DecoderConfig{WindowSize: op.W2, BufferSize: op.B2}
		if pv := call(func() { err = b.Init(cfg) }); pv != nil {
			r.failf(i, "panic", "panic-Init", "Init(%+v): %s", cfg, fmtPanic(pv))
			return
		}
		if err == nil {
			// accepted after all: a new stream on the geometry the buffer
			// reports (whether that was right is not decided here)
			m.Reset()
			r.W, r.B = b.WindowSize, b.BufferSize
			st.Inc("invalid_config_accepted_by_init")
			break
		}
		// rejected: everything as before (checked by the invariants below)
		st.Inc("rejected_reinits")
	case "reinit":
		var err error
		cfg, w2, b2 := r.reinitCfg(op)
		if pv := call(func() { err = b.Init(cfg) }); pv != nil {
			r.failf(i, "panic", "panic-Init", "%s", fmtPanic(pv))
			return
		}
		if err != nil {
			r.failf(i, "unexpected-error", "Init-error", "re-Init with %+v returned %v", cfg, err)
			return
		}
		if b.WindowSize != w2 || b.BufferSize < b2 {
			r.failf(i, "unexpected-error", "Init-config", "re-Init with %+v on a used buffer gives WindowSize=%d BufferSize=%d; want %d and at least %d", cfg, b.WindowSize, b.BufferSize, w2, b2)
			return
		}
		m.Reset()
		st.Inc("reinits")
		if op.Re {
			st.Inc("reinits_with_new_geometry")
		}
		if b.BufferSize > b2 {
			st.Inc("reinit_raised_buffersize")
		}
		r.W, r.B = w2, b2
	}
	if r.fail != nil {
		return
	}
	r.invariants(i, op.Hostile)
	if preR > 0 && len(b.Data) < preLen+0 && b.R < preR {
		st.Inc("steps_with_shrink")
	}
	if b.R == len(b.Data) {
		st.Tr(fillClass(preLen, r.B, r.W), op.K, "all read")
	} else {
		st.Tr(fillClass(preLen, r.B, r.W), op.K, "unread data")
	}
}

func fillClass(l, b, w int) string {
	switch {
	case l == 0:
		return "empty"
	case l >= b:
		return "full"
	case l > w:
		return "len>window"
	default:
		return "len<=window"
	}
}

// afterBlock checks the results of a WriteBlock call of either SUT and updates
// the model from the reported (k, l).
func (r *DRun) afterBlock(i int, op *DOp, seqs []lz.Seq, bad int, lits []byte, seqArg []lz.Seq, n, k, l int, err error, decoder bool) {
	st := r.st
	m := &r.model
	// the caller's block must be left untouched
	if !bytes.Equal(lits, op.Data) {
		r.failf(i, "caller-modified", "literals-modified", "WriteBlock modified the caller's Literals")
		return
	}
	for j := range seqs {
		if seqArg[j] != seqs[j] {
			r.failf(i, "caller-modified", "sequences-modified", "WriteBlock modified the caller's Sequences[%d]", j)
			return
		}
	}
	if bad >= 0 {
		st.Inc("hostile_blocks")
		var sum int64
		for _, q := range seqs {
			sum += int64(q.LitLen)
		}
		if sum >= 1<<32 && int64(uint32(sum)) <= int64(len(lits)) {
			st.Inc("hostile_blocks_with_wrapping_sums")
		}
		if err == nil {
			r.failf(i, "malformed-accepted", "WriteBlock-accepted", "block with malformed sequence %d %+v (stream length %d, WindowSize %d, %d literals) accepted without error", bad, seqs[bad], len(m.Out), r.W, len(lits))
			return
		}
		if k > bad {
			r.failf(i, "malformed-accepted", "WriteBlock-k", "malformed sequence %d %+v reported as consumed (k=%d, err=%v)", bad, seqs[bad], k, err)
			return
		}
	}
	for j := 0; j < k && j < len(seqs); j++ {
		if lim := r.sizeLimit(); int64(seqs[j].MatchLen) > lim || int64(seqs[j].LitLen) > lim {
			r.failf(i, "oversized-accepted", "oversized-accepted", "sequence %d %+v reported as consumed by a decoder whose largest BufferSize was %d", j, seqs[j], r.maxB)
			return
		}
	}
	app, ok, why := expectedAppend(m.Out, seqs, lits, k, l)
	if !ok {
		chk := "count-k-l"
		if bad >= 0 {
			chk = "not-atomic"
		}
		r.failf(i, chk, "WriteBlock-k-l", "WriteBlock returned n=%d k=%d l=%d err=%v: %s", n, k, l, err, why)
		return
	}
	if err == nil && (k != len(seqs) || l != len(lits)) {
		r.failf(i, "count-k-l", "WriteBlock-k-l", "WriteBlock returned nil error but k=%d of %d sequences, l=%d of %d literals", k, len(seqs), l, len(lits))
		return
	}
	m.Out = append(m.Out, app...)
	if n != len(app) {
		r.failf(i, "count-n", "WriteBlock-n", "WriteBlock returned n=%d but the consumed k=%d sequences and l=%d literals expand to %d bytes (err=%v)", n, k, l, len(app), err)
		// content model stays valid: continue checking invariants
	}
	if bad >= 0 {
		st.Inc("hostile_rejected")
		if k > 0 || l > 0 {
			st.Inc("hostile_rejected_after_partial_progress")
		}
		return
	}
	st.Inc("valid_blocks")
	if len(seqs) > 0 {
		st.Inc("valid_blocks_with_sequences")
	}
	switch {
	case err == nil:
	case err == lz.ErrFullBuffer && !decoder:
		st.Inc("buffer_refused_full")
		if k > 0 || l > 0 {
			st.Inc("block_stopped_early_after_progress")
		}
	case errIs(err, errStrMatchLen):
		st.Inc("refused_matchlen")
		if !decoder {
			break
		}
		// classification for C07: which item was refused
		class := "refused-valid-matchlen"
		if k < len(seqs) {
			g := int64(seqs[k].LitLen) + int64(seqs[k].MatchLen)
			if g > int64(r.B-r.W) {
				class = "decoder-refuses-sequence-longer-than-BufferSize-minus-WindowSize"
			}
		}
		r.failf(i, "refused-valid", class, "Decoder.WriteBlock refused a well-formed block at sequence %d (%+v) with %v; WindowSize=%d BufferSize=%d", k, seqAt(seqs, k), err, r.W, r.B)
	case errIs(err, errStrOffset) || errIs(err, errStrLitLen):
		r.failf(i, "valid-offset-rejected", "WriteBlock-valid-rejected", "well-formed sequence %d %+v rejected with %v (stream length %d, WindowSize %d)", k, seqAt(seqs, k), err, len(m.Out)-len(app), r.W)
	case decoder && r.w.failedInCall && err == r.w.lastErr:
	default:
		chk := "unexpected-error"
		if decoder {
			chk = "refused-valid"
		}
		r.failf(i, chk, "WriteBlock-error", "WriteBlock returned %v for a well-formed block", err)
	}
}

func seqAt(s []lz.Seq, k int) any {
	if k < len(s) {
		return s[k]
	}
	return "trailing literals"
}

// decCall runs f as one Decoder call under the drain monitor.
func (r *DRun) decCall(i int, name string, argBytes int, f func()) bool {
	r.w.begin(argBytes)
	pv := call(f)
	if pv == nil {
		return true
	}
	if s, ok := pv.(spinSentinel); ok {
		r.failf(i, "spin", "spin-"+name, "Decoder.%s does not terminate: the writer was called %d times (%d consecutive empty drains) for %d argument bytes; WindowSize=%d BufferSize=%d", name, s.calls, s.empty, argBytes, r.W, r.B)
		return false
	}
	r.failf(i, "panic", "panic-Decoder."+name, "%s", fmtPanic(pv))
	return false
}

// surfaced: a call during which the writer failed must return the writer's
// error (C18), not nil.
func (r *DRun) surfaced(i int, name string, err error) bool {
	if err == nil && r.w.failedInCall {
		r.failf(i, "wrong-error", "writer-error-not-surfaced", "the writer failed during Decoder.%s (it returned %v) but the call returned a nil error", name, r.w.lastErr)
		return false
	}
	return true
}

func (r *DRun) prefixCheck(i int) {
	m := &r.model
	a := r.w.accepted
	if len(a) > len(m.Out) || !bytes.Equal(a, m.Out[:len(a)]) {
		r.failf(i, "writer-prefix", "writer-prefix", "the %d bytes accepted by the writer are not a prefix of the reference expansion (%d bytes)", len(a), len(m.Out))
	}
}

// verifyTaken makes the number of bytes a Decoder call really took in
// observable (C17 on the Decoder, whose buffer is private): after a call during
// which the writer failed, the decoder is flushed - retrying until the writer
// accepts - so that the writer holds everything the decoder has taken. If that
// is the stream before the call plus a prefix of full (the complete expansion
// of the call's arguments) of another length than the call reported, the
// reported counts are wrong. Any other difference is not a matter of counts
// and is left to the flush / exactly-once checks.
func (r *DRun) verifyTaken(i int, name string, pre int, full []byte, report string) {
	if !r.owned["count-k-l"] || r.fail != nil {
		return
	}
	m := &r.model
	for try := 0; ; try++ {
		var err error
		if !r.decCall(i, "Flush", 0, func() { err = r.dec.Flush() }) {
			return
		}
		if err == nil {
			break
		}
		if err != r.w.lastErr || try > 60 {
			return
		}
	}
	r.st.Inc("counts_verified_after_writer_fault")
	acc := r.w.accepted
	if bytes.Equal(acc, m.Out) {
		return
	}
	if len(acc) < pre || pre > len(m.Out) || !bytes.Equal(acc[:pre], m.Out[:pre]) {
		return
	}
	got := acc[pre:]
	if len(got) <= len(full) && bytes.Equal(got, full[:len(got)]) && len(got) != len(m.Out)-pre {
		r.failf(i, "count-k-l", name+"-counts-after-writer-fault", "Decoder.%s returned %s after a writer error, which denotes %d bytes taken, but the decoder took %d bytes of the arguments (seen after flushing)", name, report, len(m.Out)-pre, len(got))
	}
}

func (r *DRun) stepDecoder(i int, op *DOp) {
	d := r.dec
	st := r.st
	m := &r.model
	w := r.w
	const maxRetry = 40
	switch op.K {
	case "byte":
		for try := 0; ; try++ {
			var err error
			if !r.decCall(i, "WriteByte", 1, func() { err = d.WriteByte(op.Data[0]) }) || !r.surfaced(i, "WriteByte", err) {
				return
			}
			if err == nil {
				m.Out = append(m.Out, op.Data[0])
				break
			}
			if !w.failedInCall || err != w.lastErr {
				r.failf(i, errCheck(w, err), "WriteByte-error", "Decoder.WriteByte returned %v (writer failed in call: %v)", err, w.failedInCall)
				return
			}
			st.Inc("calls_with_writer_fault")
			r.prefixCheck(i)
			r.verifyTaken(i, "WriteByte", len(m.Out), op.Data[:1], "an error")
			if r.fail != nil || try > maxRetry {
				return
			}
		}
	case "write":
		p := op.Data
		for try := 0; ; try++ {
			var n int
			var err error
			arg := callerCopy(p)
			if !r.decCall(i, "Write", len(p), func() { n, err = d.Write(arg) }) {
				return
			}
			scribble(arg)
			if !r.surfaced(i, "Write", err) {
				return
			}
			if n < 0 || n > len(p) {
				r.failf(i, "count-n", "Decoder.Write-n", "Decoder.Write of %d bytes returned n=%d", len(p), n)
				return
			}
			pre := len(m.Out)
			m.Out = append(m.Out, p[:n]...)
			if err == nil {
				if n != len(p) {
					r.failf(i, "count-n", "Decoder.Write-n", "Decoder.Write of %d bytes returned n=%d, nil", len(p), n)
					return
				}
				break
			}
			if !w.failedInCall || err != w.lastErr {
				r.failf(i, errCheck(w, err), "Decoder.Write-error", "Decoder.Write(%d bytes) returned n=%d err=%v (writer failed in call: %v); WindowSize=%d BufferSize=%d", len(p), n, err, w.failedInCall, r.W, r.B)
				return
			}
			st.Inc("calls_with_writer_fault")
			r.prefixCheck(i)
			r.verifyTaken(i, "Write", pre, p, fmt.Sprintf("n=%d", n))
			if r.fail != nil || try > maxRetry {
				return
			}
			p = p[n:]
			st.Inc("retries")
		}
		if len(op.Data) > r.B-r.W {
			st.Inc("decoder_writes_larger_than_free_space")
		}
	case "block":
		seqs, bad := r.resolve(op)
		lits := op.Data
		for try := 0; ; try++ {
			la := callerCopy(lits)
			sa := append([]lz.Seq(nil), seqs...)
			var n, k, l int
			var err error
			argBytes := len(lits)
			for _, s := range seqs {
				if s.MatchLen < 1<<20 {
					argBytes += int(s.MatchLen)
				}
			}
			if !r.decCall(i, "WriteBlock", argBytes, func() { n, k, l, err = d.WriteBlock(lz.Block{Sequences: sa, Literals: la}) }) || !r.surfaced(i, "WriteBlock", err) {
				return
			}
			sub := &DOp{K: "block", Data: lits, Seqs: nil, Hostile: op.Hostile}
			pre := len(m.Out)
			r.afterBlock(i, sub, seqs, bad, la, sa, n, k, l, err, true)
			// the block memory belongs to the caller again (parsers reuse it)
			scribble(la)
			for j := range sa {
				sa[j] = lz.Seq{LitLen: 0xdead, MatchLen: 0xbeef, Offset: 1}
			}
			if r.fail != nil && r.fail.Check == "count-k-l" && !r.owned["count-k-l"] && r.owned["writer-prefix"] && bad < 0 &&
				w.failedInCall && err == w.lastErr && 0 <= k && k <= len(seqs) && 0 <= l && l <= len(lits) {
				// the reported (k, l) are not a consistent account of what was
				// consumed (the business of C17). The exactly-once promise is
				// about a caller who follows the retry protocol to the letter:
				// it retries Sequences[k:], Literals[l:] whatever they denote.
				// The reference is then the complete expansion of the block.
				r.fail = nil
				full, xerr := ref.Expand(append([]byte(nil), m.Out[:pre]...), seqs, lits)
				if xerr != nil {
					return
				}
				m.Out = full
				st.Inc("retries_with_inconsistent_counts_followed_literally")
				for try2 := 0; ; try2++ {
					r.prefixCheck(i)
					if r.fail != nil || try2 > maxRetry {
						return
					}
					seqs, lits = seqs[k:], lits[l:]
					la := callerCopy(lits)
					sa := append([]lz.Seq(nil), seqs...)
					if !r.decCall(i, "WriteBlock", len(lits)+64, func() { n, k, l, err = d.WriteBlock(lz.Block{Sequences: sa, Literals: la}) }) || !r.surfaced(i, "WriteBlock", err) {
						return
					}
					scribble(la)
					if err == nil {
						break
					}
					if !w.failedInCall || err != w.lastErr {
						r.failf(i, errCheck(w, err), "Decoder.WriteBlock-error", "Decoder.WriteBlock returned %v on a retry (writer failed in call: %v)", err, w.failedInCall)
						return
					}
					if k < 0 || k > len(seqs) || l < 0 || l > len(lits) {
						return
					}
					st.Inc("calls_with_writer_fault")
				}
				break
			}
			if r.fail != nil {
				return
			}
			if err == nil {
				break
			}
			if bad >= 0 {
				// rejected as required; the stream continues
				break
			}
			if !w.failedInCall || err != w.lastErr {
				r.failf(i, errCheck(w, err), "Decoder.WriteBlock-error", "Decoder.WriteBlock returned %v (writer failed in call: %v)", err, w.failedInCall)
				return
			}
			st.Inc("calls_with_writer_fault")
			r.prefixCheck(i)
			if r.owned["count-k-l"] && r.fail == nil && pre <= len(m.Out) {
				// complete expansion of the arguments on top of the stream
				// before the call
				vs, vl := seqs, lits
				if bad >= 0 {
					vs = seqs[:bad]
					sl, _ := ref.SumLit(vs)
					vl = lits[:sl]
				}
				// (attacker-chosen lengths are not expanded by the harness)
				var total int64
				for _, q := range vs {
					total += int64(q.LitLen) + int64(q.MatchLen)
				}
				if total <= int64(4*r.B)+1<<16 {
					if full, xerr := ref.Expand(append([]byte(nil), m.Out[:pre]...), vs, vl); xerr == nil {
						r.verifyTaken(i, "WriteBlock", pre, full[pre:], fmt.Sprintf("n=%d k=%d l=%d", n, k, l))
					}
				}
			}
			if r.fail != nil || try > maxRetry {
				return
			}
			// retry the unconsumed remainder as indicated by k and l
			seqs = seqs[k:]
			lits = lits[l:]
			if bad >= 0 {
				bad -= k
			}
			st.Inc("retries")
		}
	case "flush":
		for try := 0; ; try++ {
			var err error
			if !r.decCall(i, "Flush", 0, func() { err = d.Flush() }) || !r.surfaced(i, "Flush", err) {
				return
			}
			if err == nil {
				if !bytes.Equal(w.accepted, m.Out) {
					r.failf(i, "flush-incomplete", "flush", "after a successful Flush the writer holds %d bytes, the reference expansion has %d bytes (equal prefix: %d)", len(w.accepted), len(m.Out), commonPrefix(w.accepted, m.Out))
					return
				}
				st.Inc("flushes_verified")
				break
			}
			if !w.failedInCall || err != w.lastErr {
				r.failf(i, errCheck(w, err), "Flush-error", "Flush returned %v", err)
				return
			}
			st.Inc("calls_with_writer_fault")
			r.prefixCheck(i)
			if r.fail != nil || try > maxRetry {
				return
			}
		}
	case "badinit":
		// Init with a configuration that must be rejected returns the error
		// and leaves the decoder, incl. its writer and unflushed data, alone
		cfg := lz.DecoderConfig{WindowSize: op.W2, BufferSize: op.B2}
		w2 := &planWriter{fault: w.fault, calls: w.calls, faultsSeen: w.faultsSeen}
		var ierr error
		if pv := call(func() { ierr = d.Init(r.dc.writerFor(w2), cfg) }); pv != nil {
			r.failf(i, "panic", "panic-Decoder.Init", "Init(%+v): %s", cfg, fmtPanic(pv))
			return
		}
		if ierr == nil {
			// accepted after all: a new stream on the new writer
			c := cfg
			c.SetDefaults()
			r.w = w2
			m.Reset()
			r.W, r.B = c.WindowSize, c.BufferSize
			st.Inc("invalid_config_accepted_by_init")
			return
		}
		st.Inc("rejected_reinits")
	case "reinit":
		// Init on a used Decoder starts a new stream on a new writer
		var err error
		if !r.decCall(i, "Flush", 0, func() { err = d.Flush() }) {
			return
		}
		if err != nil {
			return
		}
		if !bytes.Equal(w.accepted, m.Out) {
			r.failf(i, "flush-incomplete", "flush", "before re-Init the writer holds %d of %d bytes", len(w.accepted), len(m.Out))
			return
		}
		w2 := &planWriter{fault: w.fault, calls: w.calls, faultsSeen: w.faultsSeen} // the fault plan goes on by writer call index
		var ierr error
		ncfg, nw, nb := r.reinitCfg(op)
		if pv := call(func() { ierr = d.Init(r.dc.writerFor(w2), ncfg) }); pv != nil {
			r.failf(i, "panic", "panic-Decoder.Init", "%s", fmtPanic(pv))
			return
		}
		if ierr != nil {
			r.failf(i, "refused-valid", "Init-error", "re-Init of a used Decoder with the valid configuration %+v returned %v", ncfg, ierr)
			return
		}
		r.w = w2
		m.Reset()
		st.Inc("reinits")
		if op.Re {
			st.Inc("reinits_with_new_geometry")
		}
		r.W, r.B = nw, nb
	case "reset":
		// a reset drops unflushed data by design: flush first so that the
		// exactly-once accounting stays meaningful
		var err error
		if !r.decCall(i, "Flush", 0, func() { err = d.Flush() }) {
			return
		}
		if err != nil {
			return
		}
		w2 := &planWriter{fault: w.fault, calls: w.calls, faultsSeen: w.faultsSeen} // the fault plan goes on by writer call index
		if pv := call(func() { d.Reset(r.dc.writerFor(w2)) }); pv != nil {
			r.failf(i, "panic", "panic-Decoder.Reset", "%s", fmtPanic(pv))
			return
		}
		if !bytes.Equal(w.accepted, m.Out) {
			r.failf(i, "flush-incomplete", "flush", "before Reset the writer holds %d of %d bytes", len(w.accepted), len(m.Out))
			return
		}
		r.w = w2
		m.Reset()
		st.Inc("resets")
	default:
		return
	}
	if r.fail != nil {
		return
	}
	r.prefixCheck(i)
	st.Tr(fmt.Sprintf("pending=%s", pendClass(len(m.Out)-len(r.w.accepted), r.B, r.W)), "Decoder."+op.K, "ok")
}

func pendClass(p, b, w int) string {
	switch {
	case p == 0:
		return "0"
	case p >= b:
		return ">=BufferSize"
	case p > b-w:
		return ">BufferSize-WindowSize"
	default:
		return "<=BufferSize-WindowSize"
	}
}

func errCheck(w *planWriter, err error) string {
	if w.failedInCall {
		return "wrong-error"
	}
	if w.lastErr != nil && err == w.lastErr {
		// the writer did not fail in this call: the decoder hands out the
		// error of an earlier call again
		return "stale-writer-error"
	}
	return "refused-valid"
}

func commonPrefix(a, b []byte) int {
	n := 0
	for n < len(a) && n < len(b) && a[n] == b[n] {
		n++
	}
	return n
}

var _ io.Writer = (*planWriter)(nil)

// ---- generation -------------------------------------------------------------

// DGen steers GenDOps.
type DGen struct {
	SUT       string
	W, B      int
	N         int  // operations
	Hostile   int  // percentage of hostile block/match operations
	MaxItem   int  // upper bound for literal runs and match lengths
	BigItems  bool // sizes relative to B-W, larger than B
	NoReset   bool
	OnlyValid bool
}

func genLits(r *rand.Rand, n int) []byte {
	b := make([]byte, n)
	alpha := []int{2, 4, 256, 0, 1}[r.Intn(5)]
	for i := range b {
		switch alpha {
		case 256:
			b[i] = byte(r.Intn(256))
		case 0:
			// zero-heavy: 0x00 equals freshly allocated memory
			if r.Intn(4) > 0 {
				b[i] = 0
			} else {
				b[i] = byte(1 + r.Intn(3))
			}
		case 1:
			b[i] = []byte{0x00, 0xff}[r.Intn(2)]
		default:
			b[i] = 'a' + byte(r.Intn(alpha))
		}
	}
	return b
}

func (g *DGen) size(r *rand.Rand) int {
	free := g.B - g.W
	if free < 1 {
		free = 1
	}
	if g.BigItems {
		switch r.Intn(14) {
		case 0:
			return free - 1
		case 1:
			return free
		case 2:
			return free + 1
		case 3:
			return g.B
		case 4:
			return g.B + 1 + r.Intn(g.B+1)
		case 5:
			return g.W
		case 6:
			return g.W + 1 + r.Intn(6)
		case 7:
			if free > 8 {
				return free - 1 - r.Intn(7)
			}
		case 8:
			return 1 + r.Intn(free)
		}
	}
	if free < 1 {
		free = 1
	}
	m := g.MaxItem
	if m <= 0 {
		m = 12
	}
	s := r.Intn(1 + r.Intn(m))
	if s < 0 {
		s = 0
	}
	return s
}

func hostileU32(r *rand.Rand, around ...int) uint32 {
	switch r.Intn(8) {
	case 0:
		return 0
	case 1:
		return 0xffffffff
	case 2:
		return 1 << 31
	case 3:
		return uint32(r.Uint64())
	}
	if len(around) > 0 {
		a := around[r.Intn(len(around))] + r.Intn(3) - 1
		if a < 0 {
			a = 0
		}
		return uint32(a)
	}
	return uint32(r.Intn(64))
}

func (g *DGen) validSeq(r *rand.Rand, maxLit int) DSeq {
	l := g.size(r)
	if l > maxLit {
		l = maxLit
	}
	m := g.size(r)
	if r.Intn(6) == 0 {
		m = 0
	}
	return DSeq{L: uint32(l), M: uint32(m), OK: 1 + r.Intn(5), O: uint32(r.Intn(1 << 16))}
}

// GenDOps generates a decoder history.
func GenDOps(r *rand.Rand, g *DGen) []DOp {
	var ops []DOp
	for len(ops) < g.N {
		hostile := !g.OnlyValid && r.Intn(100) < g.Hostile
		k := r.Intn(100)
		switch {
		case k < 10:
			ops = append(ops, DOp{K: "byte", Data: genLits(r, 1)})
		case k < 25:
			ops = append(ops, DOp{K: "write", Data: genLits(r, g.size(r))})
		case k < 40 && g.SUT == "buffer":
			s := g.validSeq(r, 0)
			s.L = 0
			op := DOp{K: "match", Seqs: []DSeq{s}}
			if hostile {
				op.Hostile = true
				op.Seqs[0] = DSeq{M: hostileU32(r, 1, g.W, g.B), OK: 0, O: hostileU32(r, 0, g.W, g.W+1, g.B)}
			}
			ops = append(ops, op)
		case k < 70:
			nseq := r.Intn(5)
			total := 0
			var seqs []DSeq
			var lits []byte
			for j := 0; j < nseq; j++ {
				s := g.validSeq(r, 1<<30)
				seqs = append(seqs, s)
				total += int(s.L)
			}
			trailing := 0
			if r.Intn(2) == 0 {
				trailing = g.size(r)
			}
			lits = genLits(r, total+trailing)
			op := DOp{K: "block", Data: lits, Seqs: seqs}
			if hostile {
				op.Hostile = true
				if len(op.Seqs) == 0 {
					op.Seqs = []DSeq{g.validSeq(r, len(lits))}
				}
				j := r.Intn(len(op.Seqs))
				s := &op.Seqs[j]
				switch r.Intn(4) {
				case 0: // offset
					s.OK, s.O = 0, hostileU32(r, 0, g.W, g.W+1, g.W+int(s.L), g.B)
					if r.Intn(2) == 0 && s.M == 0 {
						s.M = 1 + uint32(r.Intn(5))
					}
				case 1: // literal length
					s.L = hostileU32(r, len(lits), len(lits)+1, total)
				case 2: // match length
					s.M = hostileU32(r, g.W, g.B, g.B-g.W)
					if r.Intn(3) == 0 {
						// LitLen+MatchLen at the 2^32 boundary (32-bit sums wrap)
						if s.L == 0 && len(lits) > 0 {
							s.L = 1
						}
						s.M = uint32(int64(1)<<32 - int64(s.L) + int64(r.Intn(3)) - 1)
					}
					if r.Intn(2) == 0 {
						s.OK, s.O = 0, hostileU32(r, 0, g.W+1)
					}
				default:
					*s = DSeq{L: hostileU32(r, len(lits)), M: hostileU32(r, g.W), OK: 0, O: hostileU32(r, g.W), X: uint32(r.Uint64())}
				}
			}
			ops = append(ops, op)
		case k < 82:
			if g.SUT == "buffer" {
				ops = append(ops, DOp{K: "read", N: g.readSize(r)})
			} else {
				ops = append(ops, DOp{K: "flush"})
			}
		case k < 90:
			if g.SUT == "buffer" {
				op := DOp{K: "writeto"}
				if r.Intn(3) == 0 {
					op.F = &WStep{Acc: r.Intn(5), Fail: true, E: r.Intn(6)}
				}
				ops = append(ops, op)
			} else {
				ops = append(ops, DOp{K: "flush"})
			}
		case k < 93 && !g.NoReset:
			ops = append(ops, DOp{K: "reset"})
		case k < 95 && !g.NoReset:
			op := DOp{K: "reinit"}
			if r.Intn(2) == 0 {
				// a new valid geometry, often with the default buffer size
				op.Re = true
				op.W2 = 1 + r.Intn(2*g.B+2)
				switch r.Intn(4) {
				case 0, 1:
					op.B2 = 0
				case 2:
					op.B2 = op.W2 + 1 + r.Intn(op.W2+2)
				default:
					op.B2 = op.W2 + 1
				}
			}
			ops = append(ops, op)
		case k < 97:
			// Init with a configuration that must be rejected: the error is
			// returned and the decoder goes on as it was
			op := DOp{K: "badinit", Re: true}
			switch r.Intn(6) {
			case 0:
				op.W2, op.B2 = g.B, g.B
			case 1:
				op.W2, op.B2 = g.B+1+r.Intn(3), g.B
			case 2:
				op.W2, op.B2 = 4*g.B+64, 4*g.B+64
			case 3:
				op.W2, op.B2 = g.W, -1-r.Intn(3)
			case 4:
				op.W2, op.B2 = -1-r.Intn(3), g.B
			default:
				op.W2, op.B2 = g.W, 1<<32+r.Intn(3)
			}
			ops = append(ops, op)
		default:
			ops = append(ops, DOp{K: "write", Data: genLits(r, g.size(r))})
		}
	}
	if g.SUT == "decoder" {
		ops = append(ops, DOp{K: "flush"})
	}
	return ops
}

func (g *DGen) readSize(r *rand.Rand) int {
	switch r.Intn(5) {
	case 0:
		return 1
	case 1:
		return g.B
	case 2:
		return g.W
	}
	return r.Intn(g.B + 2)
}
