package props

import (
	"bytes"
	"fmt"
	"math/rand"
	"sort"
	"sync"
	"time"

	"github.com/ulikunitz/lz/suffix"
	"verif/core"
	"verif/gen"
	"verif/ref"
)

// SfxCase is a text (and for C10 optional length bounds).
type SfxCase struct {
	Text   []byte `json:"text"`
	Family string `json:"family,omitempty"`
	Min    int    `json:"min,omitempty"`
	Max    int    `json:"max,omitempty"`
	AllMM  int    `json:"allmm,omitempty"` // enumerate all 0<=min<=max<=AllMM
}

// exhText maps idx to the idx-th string over an alphabet of k letters in
// length-lexicographic order (idx 0 is the empty string).
func exhText(k int, idx int64) []byte {
	l := 0
	cnt := int64(1)
	for idx >= cnt {
		idx -= cnt
		cnt *= int64(k)
		l++
	}
	b := make([]byte, l)
	for i := l - 1; i >= 0; i-- {
		b[i] = 'a' + byte(idx%int64(k))
		idx /= int64(k)
	}
	return b
}

func exhCount(k, maxLen int) int64 {
	n, c := int64(0), int64(1)
	for l := 0; l <= maxLen; l++ {
		n += c
		c *= int64(k)
	}
	return n
}

// ---------------------------------------------------------------- C09

type c09prop struct{ base }

func (p *c09prop) CaseCPU(tier string) int {
	if tier == "thorough" {
		return 600
	}
	return 60
}

func (p *c09prop) Plan(tier string, seed int64) []core.Segment {
	l2, l3, fam, big := 14, 8, int64(3000), int64(40)
	if tier == "thorough" {
		l2, l3, fam, big = 16, 10, 40000, 160
	}
	return []core.Segment{
		{Kind: fmt.Sprintf("exh2:%d", l2), N: exhCount(2, l2), Exhaustive: true},
		{Kind: fmt.Sprintf("exh3:%d", l3), N: exhCount(3, l3), Exhaustive: true},
		{Kind: "fixed", N: int64(len(c09fixed))},
		{Kind: "corpus:family", N: 600},
		{Kind: "family", N: fam},
		{Kind: "bstar", N: fam * 14},
		{Kind: "symbolic", N: fam * 100},
		{Kind: "runpattern", N: fam * 60},
		{Kind: "big", N: big, Chunk: 1},
		{Kind: "randk", N: fam},
		{Kind: "glitch", N: fam},
		{Kind: "twins", N: fam / 4},
		{Kind: "overlap", N: 3 * tierScale(tier, 5), Chunk: 1},
		// texts of 0.5-4 MiB: more than 64 Ki B* suffixes over all 256 byte
		// values, recursion depths of the tandem repeat sort beyond 16
		{Kind: "huge", N: 14 * tierScale(tier, 4), Chunk: 1},
		// X X and X X X with |X| of 15-45 kB over 2-6 letters
		{Kind: "tandem", N: 60 * tierScale(tier, 20), Chunk: 6},
	}
}

// runOverlap: the functions keep no state between calls, so calls on disjoint
// arguments that overlap in time (several goroutines) must return what they
// return alone. Eight goroutines sort, invert and compute LCP tables of their
// own texts for several rounds; every result is checked like a single call.
func runOverlap(c *core.Case, st *core.Stats) []core.Violation {
	r := core.Rand(c.Seed, "C09", c.Kind, c.Idx)
	const G = 8
	texts := make([][]byte, G)
	for g := range texts {
		n := 20000 + r.Intn(150000)
		switch g % 4 {
		case 0:
			texts[g] = bstarText(r, n)
		case 1:
			texts[g] = gen.Family(r, "rand2", n, gen.Hint{})
		case 2:
			texts[g] = gen.Family(r, "text", n, gen.Hint{})
		default:
			texts[g] = gen.Family(r, "rand256", n, gen.Hint{})
		}
	}
	errs := make([]string, G)
	var wg sync.WaitGroup
	start := make(chan struct{})
	for g := 0; g < G; g++ {
		wg.Add(1)
		go func(g int) {
			defer wg.Done()
			defer func() {
				if pv := recover(); pv != nil {
					errs[g] = fmt.Sprintf("panic: %v", pv)
				}
			}()
			<-start
			t := texts[g]
			for round := 0; round < 3; round++ {
				sa := make([]int32, len(t))
				for i := range sa {
					sa[i] = -7
				}
				suffix.Sort(t, sa)
				if why := ref.CheckSA(t, sa); why != "" {
					errs[g] = "suffix.Sort: " + why
					return
				}
				lcp := make([]int32, len(t))
				suffix.LCP(t, nil, nil, lcp)
				want := ref.Kasai(t, sa)
				for i := range want {
					if lcp[i] != want[i] {
						errs[g] = fmt.Sprintf("suffix.LCP: lcp[%d]=%d, want %d", i, lcp[i], want[i])
						return
					}
				}
			}
		}(g)
	}
	close(start)
	done := make(chan struct{})
	go func() { wg.Wait(); close(done) }()
	select {
	case <-done:
	case <-time.After(10 * time.Minute):
		// the per-case CPU watchdog of the worker decides; this only keeps
		// the goroutine from waiting for ever on a deadlocked group
	}
	st.Inc("overlapping_call_groups")
	st.Add("overlapping_calls", G*3*2)
	for g, e := range errs {
		if e != "" {
			return []core.Violation{core.V(c, "overlapping-calls-differ", "8 goroutines call suffix.Sort/LCP on their own texts at the same time: goroutine %d (text of %d bytes): %s", g, len(texts[g]), e)}
		}
	}
	st.NonTrivial(c)
	return nil
}

// bstarText builds texts whose reduced B*-substring problem has runs,
// tandem repeats and long increasing ramps: the shape that exhausts the
// tandem-repeat sort budget (trsort) and reaches its copy paths.
// staircaseText builds a table of records of two-byte words (first byte <
// second byte: every word starts a B* suffix). A record consists of runs of
// equal words with ascending values; nine or more copies of a record, some
// with a prefix of other words, form tandem repeats of many B* suffixes with
// equal ranks, and the ascending runs are expensive for the tandem repeat sort
// (its work budget runs out and the partial-copy paths are taken).
func staircaseText(r *rand.Rand) []byte {
	var data []byte
	word := func(i int) {
		data = append(data, byte('a'+(i/13)%13), byte('n'+i%13))
	}
	runs, runLen := 4+r.Intn(18), 2+r.Intn(7)
	step := 1 + r.Intn(2)
	record := func(prefix int) {
		for k := 0; k < prefix; k++ {
			word(30 + r.Intn(2))
		}
		for k := 0; k < runs; k++ {
			for q := 0; q < runLen; q++ {
				word(k * step)
			}
		}
	}
	for part, parts := 0, 1+r.Intn(3); part < parts; part++ {
		pre := r.Intn(4)
		for c, copies := 0, 2+r.Intn(14); c < copies; c++ {
			record(pre)
		}
		word(100 + part)
		if r.Intn(3) == 0 {
			runs = 4 + r.Intn(18)
		}
	}
	data = append(data, byte('a'+r.Intn(3)))
	return data
}

func bstarText(r *rand.Rand, n int) []byte {
	// a B* word is 'a' 0xff 'b'+k: its rank in the reduced problem grows
	// with k. A "symbol string" over small integers is expanded into words.
	var syms []int
	mk := func() []int {
		var s []int
		switch r.Intn(5) {
		case 0: // run
			v, l := 1+r.Intn(6), 2+r.Intn(12)
			for i := 0; i < l; i++ {
				s = append(s, v)
			}
		case 1: // ramp
			a, l := 1+r.Intn(4), 2+r.Intn(40)
			for i := 0; i < l; i++ {
				s = append(s, a+i)
			}
		case 2: // tandem repeat of a short word
			w := make([]int, 1+r.Intn(4))
			for i := range w {
				w[i] = 1 + r.Intn(5)
			}
			for k, reps := 0, 2+r.Intn(8); k < reps; k++ {
				s = append(s, w...)
			}
		case 3: // two-valued run lengths
			for k, reps := 0, 2+r.Intn(6); k < reps; k++ {
				for i, l := 0, 1+r.Intn(4); i < l; i++ {
					s = append(s, 1)
				}
				for i, l := 0, 1+r.Intn(9); i < l; i++ {
					s = append(s, 2)
				}
			}
		default:
			for i, l := 0, 1+r.Intn(10); i < l; i++ {
				s = append(s, 1+r.Intn(40))
			}
		}
		return s
	}
	for len(syms) < n/3 {
		part := mk()
		reps := 1
		if r.Intn(2) == 0 {
			reps = 2 + r.Intn(3)
		}
		for k := 0; k < reps; k++ {
			syms = append(syms, part...)
		}
	}
	style := r.Intn(3)
	var b []byte
	for _, s := range syms {
		switch style {
		case 0:
			b = append(b, 'a', 0xff, byte('b'+s%150))
		case 1:
			b = append(b, 'a')
			for i := 0; i < 1+s%9; i++ {
				b = append(b, 'b')
			}
		default:
			b = append(b, byte('a'+s%3), byte('m'+s%11))
		}
		if len(b) >= n {
			break
		}
	}
	if r.Intn(2) == 0 {
		b = append(b, b...)
	}
	return b
}

// c09fixed are directed texts: the minimal witnesses of the repaired
// trPartialCopy defect (wrong permutation; non-termination) and classic hard
// inputs.
var c09fixed = func() [][]byte {
	w := "af" + "afb" + "afc" + "afdafdafdafd" + "afc" + "afdafdafd" + "afe" + "af"
	u := "aeaeaeb" + "aaeb" + "aeb" + "aed" + "aebaebaeb"
	return [][]byte{
		[]byte(w + w),
		[]byte(u + u + "aec"),
		[]byte("mississippi"),
		[]byte("abracadabra abracadabra"),
		bytes.Repeat([]byte("ab"), 300),
		bytes.Repeat([]byte{0}, 1000),
		{},
		{0xff},
	}
}()

// symText builds a text from a "symbol string": every symbol s becomes the
// word 'a', 0xff, 'b'+s, so that the reduced problem of the B* suffixes that
// the tandem-repeat sorter (trsort) has to solve is exactly the symbol string.
// The string is composed of the ingredients that steer trsort: tandem repeats
// of short words over two adjacent symbols (nested and occurring several
// times with distinct terminators), decoys that make a neighbouring group
// larger, and increasing ramps that occur twice and burn the sort budget.
func symText(r *rand.Rand) []byte {
	var sym []int
	term := 1
	next := func() int { term++; return term - 1 }
	x := 30 + r.Intn(30)
	y := x + 1 + r.Intn(4)
	parts := 2 + r.Intn(5)
	for p := 0; p < parts; p++ {
		switch r.Intn(6) {
		case 0, 1: // tandem repeat of a word over {x, y}, occurring several times
			w := make([]int, 2+r.Intn(4))
			for i := range w {
				w[i] = x
			}
			if r.Intn(4) > 0 {
				w[len(w)-1] = y
			}
			if r.Intn(4) == 0 {
				w[r.Intn(len(w))] = y
			}
			k := 2 + r.Intn(5)
			occ := 1 + r.Intn(3)
			tail := r.Intn(3)
			for o := 0; o < occ; o++ {
				for j := 0; j < k; j++ {
					sym = append(sym, w...)
				}
				for t := 0; t < tail; t++ {
					sym = append(sym, y+1+t)
				}
				sym = append(sym, next())
			}
		case 2: // decoys x y t / x x y t
			n := 1 + r.Intn(12)
			for i := 0; i < n; i++ {
				sym = append(sym, x)
				if r.Intn(3) == 0 {
					sym = append(sym, x)
				}
				sym = append(sym, y, next())
			}
		case 3: // a ramp that occurs twice (uses up the budget)
			lo := term + 2 + r.Intn(4)
			l := 3 + r.Intn(30)
			if lo+l >= x {
				l = x - lo - 1
			}
			if l < 2 {
				break
			}
			occ := 2 + r.Intn(2)
			for o := 0; o < occ; o++ {
				for s := lo; s < lo+l; s++ {
					sym = append(sym, s)
				}
				sym = append(sym, next())
			}
			term = lo + l + 1
		case 4: // runs x^k with varying terminators
			n := 2 + r.Intn(9)
			for i := 0; i < n; i++ {
				for j, k := 0, 1+r.Intn(4); j < k; j++ {
					sym = append(sym, x)
				}
				c := y
				if r.Intn(3) == 0 {
					c = y + 1
				}
				sym = append(sym, c, next())
			}
		default: // random small symbols
			for i, n := 0, 1+r.Intn(10); i < n; i++ {
				sym = append(sym, 1+r.Intn(x))
			}
		}
		if term >= x-2 {
			x += 40
			y = x + 1 + r.Intn(4)
		}
		if x > 230 {
			break
		}
	}
	b := make([]byte, 0, 3*len(sym))
	style := r.Intn(4)
	for _, s := range sym {
		switch style {
		case 0, 1, 2:
			b = append(b, 'a', 0xff, byte('b'+s%254))
		default: // two bytes per word
			b = append(b, 'a', byte('b'+s%254))
		}
	}
	return b
}

// runPattern builds texts of two-letter runs from a small set of words
// a^i b^j, each repeated several times, the whole unit repeated: tandem
// repeats on the level of the B* substrings.
func runPattern(r *rand.Rand) []byte {
	nw := 2 + r.Intn(5)
	var unit []byte
	for w := 0; w < nw; w++ {
		i, j := 1+r.Intn(4), r.Intn(5)
		k := 1 + r.Intn(7)
		for t := 0; t < k; t++ {
			for q := 0; q < i; q++ {
				unit = append(unit, 'a')
			}
			for q := 0; q < j; q++ {
				unit = append(unit, 'b')
			}
		}
	}
	m := 2 + r.Intn(11)
	b := bytes.Repeat(unit, m)
	if r.Intn(3) == 0 {
		b = append(b, unit[:r.Intn(len(unit)+1)]...)
	}
	if len(b) > 4000 {
		b = b[:4000]
	}
	return b
}

func (p *c09prop) Gen(kind string, idx int64, seed int64, tier string) core.Case {
	class, arg := splitKind(kind)
	var sc SfxCase
	switch {
	case kind == "overlap":
		sc = SfxCase{Family: "overlap"} // texts are drawn in runOverlap
	case kind == "fixed":
		sc = SfxCase{Text: c09fixed[idx], Family: "fixed"}
	case class == "exh2":
		sc = SfxCase{Text: exhText(2, idx), Family: "exh2"}
	case class == "exh3":
		sc = SfxCase{Text: exhText(3, idx), Family: "exh3"}
	default:
		s := seed
		if class == "corpus" {
			s = 0
			kind2 := arg
			_ = kind2
		}
		r := core.Rand(s, p.id, kind, idx)
		k := kind
		if class == "corpus" {
			k = arg
		}
		switch k {
		case "symbolic":
			sc = SfxCase{Text: symText(r), Family: "symbolic"}
		case "runpattern":
			sc = SfxCase{Text: runPattern(r), Family: "runpattern"}
		case "randk":
			// random texts of 100-4000 bytes over 3 to 8 letters: buckets
			// of more than seven B* substrings with equal sections that mix
			// ended and longer substrings
			k := 3 + r.Intn(6)
			t := make([]byte, 100+r.Intn(1+r.Intn(3900)))
			for i := range t {
				t[i] = 'a' + byte(r.Intn(k))
			}
			sc = SfxCase{Text: t, Family: "randk"}
		case "glitch":
			// short periods (2-8 bytes over 3-5 letters) with a few glitches,
			// 20-600 bytes: many B* substrings per bucket that are equal up
			// to some depth, some of them ending there
			k := 3 + r.Intn(3)
			per := make([]byte, 2+r.Intn(7))
			for i := range per {
				per[i] = 'a' + byte(r.Intn(k))
			}
			t := make([]byte, 20+r.Intn(1+r.Intn(580)))
			for i := range t {
				t[i] = per[i%len(per)]
			}
			for g := r.Intn(5); g > 0; g-- {
				t[r.Intn(len(t))] = 'a' + byte(r.Intn(k))
			}
			sc = SfxCase{Text: t, Family: "glitch"}
		case "twins":
			// B* substrings that agree in their first 250-700 bytes and
			// differ later: blocks x c^L y with equal L and different y
			var t []byte
			c := byte('c' + r.Intn(3))
			for blocks := 2 + r.Intn(5); blocks > 0; blocks-- {
				l := 250 + r.Intn(450)
				for rep := 1 + r.Intn(3); rep > 0; rep-- {
					t = append(t, 'a'+byte(r.Intn(2)))
					for i := 0; i < l; i++ {
						t = append(t, c)
					}
					t = append(t, 'a'+byte(r.Intn(int(c-'a')+3)))
				}
			}
			sc = SfxCase{Text: t, Family: "twins"}
		case "bstar":
			n := 20 + r.Intn(1+r.Intn(6000))
			sc = SfxCase{Text: bstarText(r, n), Family: "bstar"}
			if r.Intn(8) == 0 {
				sc.Text = staircaseText(r)
			}
		case "huge":
			switch idx % 7 {
			case 5:
				// exactly periodic (the smallest suffix is a border of the text)
				n := 66000 + r.Intn(140000)
				sc = SfxCase{Text: gen.PeriodicRun(r, 1+r.Intn(7), n, 2+r.Intn(3)), Family: "huge:periodic-exact"}
			case 6:
				// the whole text is its smallest suffix (unique smallest byte in
				// front), or a run in front of random bytes
				n := 66000 + r.Intn(140000)
				t := gen.Family(r, "rand256", n, gen.Hint{})
				for i := range t {
					if t[i] < 2 {
						t[i] = 2
					}
				}
				t[0] = 0
				if r.Intn(2) == 0 {
					for i := 0; i < 1000; i++ {
						t[i] = 1
					}
				}
				sc = SfxCase{Text: t, Family: "huge:smallest-first"}
			case 0, 1:
				n := []int{512 << 10, 1 << 20, 700000}[r.Intn(3)] + r.Intn(1000)
				sc = SfxCase{Text: gen.Family(r, "rand256", n, gen.Hint{}), Family: "huge:rand256"}
			case 2:
				n := []int{1 << 20, 2 << 20, 3 << 20}[r.Intn(3)] + r.Intn(3)*r.Intn(100000)
				sc = SfxCase{Text: gen.Family(r, "pd", n, gen.Hint{}), Family: "huge:pd"}
			case 3:
				x := gen.Family(r, "text", 100000+r.Intn(250000), gen.Hint{})
				var t []byte
				for rep := 2 + r.Intn(2); rep > 0; rep-- {
					t = append(t, x...)
				}
				sc = SfxCase{Text: t, Family: "huge:text-repeated"}
			default:
				f := []string{"thue", "fib", "rand2", "tworuns"}[r.Intn(4)]
				sc = SfxCase{Text: gen.Family(r, f, 1<<20+r.Intn(3<<20), gen.Hint{}), Family: "huge:" + f}
			}
		case "tandem":
			t := gen.Tandem(r, 15000+r.Intn(30000), 2+r.Intn(2), 2+r.Intn(5))
			if r.Intn(3) == 0 {
				t = append(t, bytes.Repeat([]byte{'A'}, r.Intn(20))...)
			}
			sc = SfxCase{Text: t, Family: "tandem"}
		case "big":
			sizes := []int{20000, 50000, 100000}
			if tier == "thorough" {
				sizes = []int{100000, 300000, 1 << 20, 4 << 20}
			}
			n := sizes[idx%int64(len(sizes))]
			fams := []string{"tworuns", "periodic", "rand2", "fib", "thue", "pd", "debruijn", "lzsynth", "text", "concat", "zero", "rand256", "runmix"}
			f := fams[(idx/int64(len(sizes)))%int64(len(fams))]
			var t []byte
			if f == "text" {
				// 3-fold concatenation exhausts the trsort budget
				x := gen.Family(r, f, n/3, gen.Hint{})
				t = append(append(append(t, x...), x...), x...)
			} else {
				t = gen.Family(r, f, n, gen.Hint{Window: 1000, Block: 300})
			}
			sc = SfxCase{Text: t, Family: "big:" + f}
		default:
			n := r.Intn(1 + r.Intn(3000))
			if r.Intn(10) == 0 {
				n = r.Intn(12)
			}
			f, t := gen.Bytes(r, n, gen.Hint{Window: 64, Block: 32, MinMatch: 3})
			if r.Intn(12) == 0 {
				// all 256 byte values
				for i := range t {
					t[i] = byte(r.Intn(256))
				}
				for i := 0; i < 256 && i < len(t); i++ {
					t[r.Intn(len(t))] = byte(i)
				}
				f = "all256"
			}
			sc = SfxCase{Text: t, Family: f}
		}
	}
	return core.MkCase(p.id, kind, idx, seed, tier, sc)
}

func (p *c09prop) Run(c *core.Case, st *core.Stats) []core.Violation {
	if c.Kind == "overlap" {
		return runOverlap(c, st)
	}
	sc, err := decode[SfxCase](c)
	if err != nil {
		return []core.Violation{core.V(c, "harness", "bad case: %v", err)}
	}
	t := sc.Text
	n := len(t)
	orig := append([]byte(nil), t...)
	desc := func() string {
		if n <= 80 {
			return fmt.Sprintf("text %q", t)
		}
		return fmt.Sprintf("text of %d bytes (family %s) starting %q", n, sc.Family, t[:40])
	}
	// sa pre-filled with garbage: the result must not depend on it
	sa := make([]int32, n)
	for i := range sa {
		sa[i] = -int32(i*7+3) - 1
	}
	if pv := call(func() { suffix.Sort(t, sa) }); pv != nil {
		return []core.Violation{core.V(c, "sort-panic", "suffix.Sort panics for %s: %v", desc(), pv)}
	}
	if !bytes.Equal(t, orig) {
		return []core.Violation{core.V(c, "text-modified", "suffix.Sort modified t for %s", desc())}
	}
	small := n <= 2000
	if (sc.Family == "symbolic" || sc.Family == "runpattern") && n > 150 {
		// high-volume families: linear-time checker
		small = false
	}
	if small {
		want := ref.NaiveSA(t)
		for i := range want {
			if sa[i] != want[i] {
				return []core.Violation{core.V(c, "sort-wrong", "suffix.Sort wrong for %s: sa[%d]=%d, want %d", desc(), i, sa[i], want[i])}
			}
		}
	} else if why := ref.CheckSA(t, sa); why != "" {
		return []core.Violation{core.V(c, "sort-wrong", "suffix.Sort wrong for %s: %s", desc(), why)}
	}
	st.Inc("texts_sorted")
	st.Inc("family:" + sc.Family)
	// LCP in the three ways it can be called
	var want []int32
	if small {
		want = ref.NaiveLCPTable(t, sa)
	} else {
		want = ref.Kasai(t, sa)
	}
	inv := make([]int32, n)
	if pv := call(func() { suffix.InvertSA(sa, inv) }); pv != nil {
		return []core.Violation{core.V(c, "invert-panic", "InvertSA panics for %s: %v", desc(), pv)}
	}
	for i, s := range sa {
		if inv[s] != int32(i) {
			return []core.Violation{core.V(c, "invert-wrong", "InvertSA: sainv[sa[%d]=%d]=%d for %s", i, s, inv[s], desc())}
		}
	}
	type heldSlice struct {
		mode    int
		name    string
		s, want []int32
	}
	var held []heldSlice
	for mode := 0; mode < 5; mode++ {
		if mode >= 3 && c.Idx%3 != 0 {
			break
		}
		lcp := make([]int32, n)
		for i := range lcp {
			lcp[i] = -77
		}
		var a, b []int32
		garbage := func(l, c int) []int32 {
			g := make([]int32, c)
			for i := range g {
				g[i] = int32(i*31 + 7)
			}
			return g[:l]
		}
		switch mode {
		case 0:
			a, b = append([]int32(nil), sa...), append([]int32(nil), inv...)
		case 1:
			a = append([]int32(nil), sa...)
		case 3:
			// slices of another length count as not supplied, whatever
			// their capacity holds (a workspace resliced to length 0, the
			// buffers of an earlier, longer text)
			a, b = append([]int32(nil), sa...), garbage(0, n+5)
		case 4:
			a, b = garbage(n+1, n+9), garbage(n/2, n+3)
		}
		if pv := call(func() { suffix.LCP(t, a, b, lcp) }); pv != nil {
			return []core.Violation{core.V(c, "lcp-panic", "suffix.LCP (mode %d) panics for %s: %v", mode, desc(), pv)}
		}
		// the slices handed in stay the caller's: they must still hold the
		// suffix array / its inverse after this and after every later call
		if mode <= 1 {
			held = append(held, heldSlice{mode, "sa", a, sa})
			if mode == 0 {
				held = append(held, heldSlice{mode, "sainv", b, inv})
			}
		}
		for _, h := range held {
			for i := range h.want {
				if h.s[i] != h.want[i] {
					return []core.Violation{core.V(c, "lcp-argument-modified", "the %s slice handed to suffix.LCP in mode %d was changed (index %d: %d, was %d) by that call or a later LCP call (now mode %d) for %s", h.name, h.mode, i, h.s[i], h.want[i], mode, desc())}
				}
			}
		}
		if n > 0 && lcp[0] != 0 {
			return []core.Violation{core.V(c, "lcp-wrong", "lcp[0]=%d for %s (mode %d)", lcp[0], desc(), mode)}
		}
		for i := 1; i < n; i++ {
			if lcp[i] != want[i] {
				return []core.Violation{core.V(c, "lcp-wrong", "suffix.LCP (mode %d: 0 sa+sainv supplied, 1 sa only, 2 none, 3 sainv of length 0 with capacity, 4 sa and sainv of other lengths) lcp[%d]=%d, want %d for %s", mode, i, lcp[i], want[i], desc())}
			}
		}
		if !bytes.Equal(t, orig) {
			return []core.Violation{core.V(c, "text-modified", "suffix.LCP modified t for %s", desc())}
		}
	}
	st.Inc("lcp_tables_checked")
	if n >= 2 {
		st.NonTrivial(c)
		if n < 200 {
			st.Sample(c, 2)
		}
	}
	if n > 2000 {
		st.Inc("texts_checked_by_linear_checker")
	}
	if n >= 512<<10 {
		st.Inc("texts_of_at_least_512KiB")
	}
	return nil
}

func init() {
	core.Register(&c09prop{base{id: "C09", level: "exploration",
		rule:        "exhaustive small scope (all strings over {a,b} up to length 14 (thorough 16) and over {a,b,c} up to length 8 (thorough 10)) plus seeded families (runs of two letters, periodic with glitches, random over 2..256 letters, Fibonacci, Thue-Morse, period doubling, de Bruijn, LZ-synthetic, source text, concatenations, all-256-byte-values) at lengths 0..3000, a B*-shaped family (words whose reduced rank string has runs, tandem repeats and long ramps, optionally doubled) and big texts (quick to 100 kB, thorough to 4 MiB incl. 3-fold concatenated source text); sa is pre-filled with negative garbage; oracles: naive suffix sort and naive LCP for n <= 2000, linear-time suffix array checker + independent Kasai beyond; LCP is called with sa+sainv, with sa only and with neither; non-trivial iff len(t) >= 2; distinct = distinct text",
		assumptions: []string{"default sort thresholds only (the property is about suffix.Sort)", "which internal sorter paths ran is reported from coverage counters in the thorough tier, never part of the verdict"},
		mandatory:   []string{"texts_sorted", "lcp_tables_checked", "texts_checked_by_linear_checker", "family:bstar", "family:all256", "overlapping_call_groups", "texts_of_at_least_512KiB", "family:tandem"}}})
}

// ---------------------------------------------------------------- C10

type c10prop struct{ base }

func (p *c10prop) CaseCPU(tier string) int { return 60 }

func (p *c10prop) Plan(tier string, seed int64) []core.Segment {
	l2, l3, mm, fam := 12, 7, 5, int64(5000)
	if tier == "thorough" {
		l2, l3, mm, fam = 16, 10, 6, 200000
	}
	return []core.Segment{
		{Kind: fmt.Sprintf("exh2:%d:%d", l2, mm), N: exhCount(2, l2), Exhaustive: true},
		{Kind: fmt.Sprintf("exh3:%d:%d", l3, mm), N: exhCount(3, l3), Exhaustive: true},
		{Kind: "corpus:family", N: 500},
		{Kind: "family", N: fam},
		{Kind: "pipeline", N: 400 * tierScale(tier, 20), Chunk: 10},
		// nesting depths of hundreds of groups (runs, short periods,
		// staircases) with large maxLen, still decided by brute force
		{Kind: "deep", N: 60 * tierScale(tier, 10), Chunk: 4},
		// texts of 70 kB to 1 MiB, decided by the linear oracle (segbig.go)
		{Kind: "bigseg", N: 16 * tierScale(tier, 6), Chunk: 1},
	}
}

func (p *c10prop) Gen(kind string, idx int64, seed int64, tier string) core.Case {
	class, arg := splitKind(kind)
	var sc SfxCase
	mmOf := func() int {
		_, mm := splitKind(arg)
		v := 5
		fmt.Sscanf(mm, "%d", &v)
		return v
	}
	switch class {
	case "exh2":
		sc = SfxCase{Text: exhText(2, idx), Family: "exh2", AllMM: mmOf()}
	case "exh3":
		sc = SfxCase{Text: exhText(3, idx), Family: "exh3", AllMM: mmOf()}
	default:
		s := seed
		if class == "corpus" {
			s = 0
		}
		r := core.Rand(s, p.id, kind, idx)
		if class == "" && kind == "deep" {
			n := 150 + r.Intn(450)
			var t []byte
			f := []string{"run", "periodic", "stairs", "fib", "tworuns", "runmix"}[r.Intn(6)]
			switch f {
			case "periodic":
				t = gen.PeriodicRun(r, 1+r.Intn(5), n, 3)
			case "stairs":
				// a^k b a^(k-1) b ... : groups nested k deep, closed one by one
				for k := 2 + r.Intn(30); k > 0 && len(t) < n; k-- {
					for j := 0; j < k; j++ {
						t = append(t, 'a')
					}
					t = append(t, 'b'+byte(r.Intn(2)))
				}
				for len(t) < n {
					t = append(t, 'a')
				}
			default:
				t = gen.Family(r, f, n, gen.Hint{})
			}
			mn := r.Intn(4)
			mx := []int{n, 1000, 300, 129, 257, 65, 64, 128, 256}[r.Intn(9)]
			if mx < mn {
				mx = mn
			}
			sc = SfxCase{Text: t, Family: "deep:" + f, Min: mn, Max: mx}
			return core.MkCase(p.id, kind, idx, seed, tier, sc)
		}
		if class == "" && kind == "bigseg" {
			var t []byte
			f := []string{"text", "rand4", "records", "tandem", "rand16", "run", "lzsynth", "rand256"}[idx%8]
			n := []int{70000, 100000, 200000, 300000, 1 << 20}[r.Intn(5)]
			switch f {
			case "records":
				t = gen.Records(r, n/7, 64, 4, 3)
			case "tandem":
				t = gen.Tandem(r, n/3, 3, 4)
			case "run":
				// a run of 1000-3000 bytes (nesting as deep as the run is long)
				// inside random bytes
				t = gen.Family(r, "rand16", n, gen.Hint{})
				l := 1000 + r.Intn(2000)
				off := r.Intn(n - l)
				for j := 0; j < l; j++ {
					t[off+j] = 'r'
				}
			default:
				t = gen.Family(r, f, n, gen.Hint{Window: 1 << 16, Block: 1 << 12, MinMatch: 3})
			}
			mn := 2 + r.Intn(4)
			mx := mn + []int{0, 1, 5, 14, 16}[r.Intn(5)]
			if f == "run" {
				mx = []int{300, 1000, 4000}[r.Intn(3)]
			}
			sc = SfxCase{Text: t, Family: "bigseg:" + f, Min: mn, Max: mx}
			return core.MkCase(p.id, kind, idx, seed, tier, sc)
		}
		if class == "" && kind == "pipeline" {
			// Sort -> LCP -> Segments as the optimizing parser uses them, on
			// texts of 100-900 bytes with repeats of 20-300 bytes (planted
			// copies, B*-shaped texts, source text) and large maxLen
			n := 100 + r.Intn(800)
			if r.Intn(10) == 0 {
				// (suffix.LCP may treat texts of 1 KiB and more differently)
				n = 1024 + r.Intn(400)
			}
			var t []byte
			f := []string{"bstar", "lzsynth", "text", "fib", "rand2", "planted"}[r.Intn(6)]
			switch f {
			case "bstar":
				t = bstarText(r, n)
				if len(t) > 1500 {
					t = t[:1500]
				}
			case "planted":
				t = gen.Family(r, "rand16", n, gen.Hint{})
				for k := 0; k < 1+r.Intn(6); k++ {
					l := 17 + r.Intn(60)
					if r.Intn(4) == 0 {
						l = 24 + r.Intn(300)
					}
					a, b := r.Intn(n), r.Intn(n)
					for j := 0; j < l && a+j < n && b+j < n; j++ {
						t[b+j] = t[a+j]
					}
				}
			default:
				t = gen.Family(r, f, n, gen.Hint{Window: 300, Block: 100, MinMatch: 3})
			}
			mn := r.Intn(6)
			mx := mn + []int{0, 1, 16, 17, 40, 273, 1000}[r.Intn(7)]
			sc = SfxCase{Text: t, Family: "pipeline:" + f, Min: mn, Max: mx}
			return core.MkCase(p.id, kind, idx, seed, tier, sc)
		}
		n := r.Intn(1 + r.Intn(160))
		f, t := gen.Bytes(r, n, gen.Hint{Window: 16, Block: 8, MinMatch: 2})
		if r.Intn(3) == 0 {
			t = bstarText(r, n)
			f = "bstar"
			if len(t) > 200 {
				t = t[:200]
			}
		}
		mn := r.Intn(6)
		mx := mn + r.Intn(1+r.Intn(40))
		sc = SfxCase{Text: t, Family: f, Min: mn, Max: mx}
	}
	return core.MkCase(p.id, kind, idx, seed, tier, sc)
}

type segCB struct {
	m   int
	seg []int32
}

// checkSegments runs suffix.Segments on a naively computed suffix array and
// LCP table and decides every clause of C10 by brute force.
// nested inputs for the re-entrancy mode
var (
	nestedText = []byte("abracadabra-abracadabra")
	nestedSA   = ref.NaiveSA(nestedText)
	nestedLCP  = ref.NaiveLCPTable(nestedText, nestedSA)
)

const canary = int32(-0x5eed)

// checkSegments runs suffix.Segments and decides every clause of C10 by brute
// force. mode: 0 callback copies only; 1 callback sorts the segment in place
// (as osap.go does); 2 the LCP table and the suffix array are sub-slices of
// one allocation (lcp directly in front of sa, spare capacity behind both,
// guarded by canaries); 3 the callback itself calls Segments on another text
// (re-entrancy: calls must not share state).
func checkSegments(t []byte, lcpM [][]int16, minLen, maxLen int, mode int, st *core.Stats) (class, msg string) {
	n := len(t)
	sa := ref.NaiveSA(t)
	lcp := ref.NaiveLCPTable(t, sa)
	var arena []int32
	if mode == 2 {
		arena = make([]int32, 2*n+8)
		copy(arena[:n], lcp)
		copy(arena[n:2*n], sa)
		for i := 2 * n; i < len(arena); i++ {
			arena[i] = canary
		}
		lcp = arena[:n]     // capacity reaches into sa
		sa = arena[n : 2*n] // capacity reaches into the canaries
	}
	if mode == 4 {
		// the inputs come from the library itself, as in osap.go
		sa = make([]int32, n)
		for i := range sa {
			sa[i] = -3
		}
		lcp = make([]int32, n)
		if pv := call(func() {
			// (another, longer text first: state kept between calls is in use)
			if len(t) >= 200 {
				warm := append(append([]byte("zyxzyxzzy"), t...), "abracadabra"...)
				for i := range warm {
					warm[i] ^= byte(i%3 + 1)
				}
				wsa, wl := make([]int32, len(warm)), make([]int32, len(warm))
				suffix.Sort(warm, wsa)
				suffix.LCP(warm, wsa, nil, wl)
			}
			suffix.Sort(t, sa)
			suffix.LCP(t, sa, nil, lcp)
		}); pv != nil {
			return "pipeline-panic", fmt.Sprintf("suffix.Sort/LCP panic: %v", pv)
		}
	}
	sortInPlace := mode == 1 || mode == 4
	var cbs []segCB
	if pv := call(func() {
		suffix.Segments(sa, lcp, minLen, maxLen, func(m int, seg []int32) {
			cbs = append(cbs, segCB{m, append([]int32(nil), seg...)})
			if sortInPlace {
				sort.Slice(seg, func(i, j int) bool { return seg[i] < seg[j] })
			}
			if mode == 3 && len(cbs) <= 3 {
				s2 := append([]int32(nil), nestedSA...)
				l2 := append([]int32(nil), nestedLCP...)
				suffix.Segments(s2, l2, 1, 5, func(int, []int32) {})
			}
		})
	}); pv != nil {
		return "segments-panic", fmt.Sprintf("Segments(minLen=%d,maxLen=%d) panics: %v", minLen, maxLen, pv)
	}
	if mode == 2 {
		for i := 2 * n; i < len(arena); i++ {
			if arena[i] != canary {
				return "writes-beyond-slice", fmt.Sprintf("Segments wrote %d behind the end of the suffix array slice", arena[i])
			}
		}
		want := ref.NaiveLCPTable(t, ref.NaiveSA(t))
		for i := range want {
			if arena[i] != want[i] {
				return "lcp-modified", fmt.Sprintf("Segments modified lcp[%d]", i)
			}
		}
	}
	st.Add("callbacks", int64(len(cbs)))
	cnt := make([][]uint16, n)
	for i := range cnt {
		cnt[i] = make([]uint16, n)
	}
	sets := make([]map[int32]bool, len(cbs))
	for ci, cb := range cbs {
		if cb.m < minLen || cb.m > maxLen {
			return "m-out-of-range", fmt.Sprintf("callback %d has m=%d outside [%d,%d]", ci, cb.m, minLen, maxLen)
		}
		set := map[int32]bool{}
		for _, x := range cb.seg {
			if x < 0 || int(x) >= n {
				return "segment-index", fmt.Sprintf("callback %d (m=%d) contains index %d", ci, cb.m, x)
			}
			if set[x] {
				return "segment-duplicate", fmt.Sprintf("callback %d (m=%d) contains suffix %d twice: %v", ci, cb.m, x, cb.seg)
			}
			set[x] = true
		}
		sets[ci] = set
		for a := 0; a < len(cb.seg); a++ {
			if n-int(cb.seg[a]) < cb.m {
				return "segment-not-sharing", fmt.Sprintf("callback %d (m=%d) contains suffix %d, which is shorter than m", ci, cb.m, cb.seg[a])
			}
			for b := a + 1; b < len(cb.seg); b++ {
				i, j := cb.seg[a], cb.seg[b]
				if i > j {
					i, j = j, i
				}
				c := int(lcpM[i][j])
				if c < cb.m {
					return "segment-not-sharing", fmt.Sprintf("callback %d (m=%d) contains suffixes %d and %d, which share only %d bytes: %v", ci, cb.m, i, j, c, cb.seg)
				}
				mm := c
				if mm > maxLen {
					mm = maxLen
				}
				if cb.m == mm {
					cnt[i][j]++
				}
			}
		}
	}
	for i := 0; i < n; i++ {
		for j := i + 1; j < n; j++ {
			c := int(lcpM[i][j])
			if c < minLen {
				continue
			}
			st.Inc("pairs_checked")
			if cnt[i][j] != 1 {
				mm := c
				if mm > maxLen {
					mm = maxLen
				}
				cl := "group-missing-pair"
				if cnt[i][j] > 1 {
					cl = "group-reported-twice"
				}
				return cl, fmt.Sprintf("suffixes %d and %d share %d bytes: %d callbacks with m=%d contain both (want exactly 1); minLen=%d maxLen=%d callbacks=%v", i, j, c, cnt[i][j], mm, minLen, maxLen, cbs)
			}
		}
	}
	// order: a group must come before every group that strictly contains it
	// and has a shorter common prefix
	if len(cbs) <= 400 {
		for x := 0; x < len(cbs); x++ {
			for y := x + 1; y < len(cbs); y++ {
				// y later than x: y must not be a longer-prefix subgroup of x
				if cbs[y].m > cbs[x].m && len(cbs[y].seg) < len(cbs[x].seg) {
					sub := true
					for _, e := range cbs[y].seg {
						if !sets[x][e] {
							sub = false
							break
						}
					}
					if sub {
						return "group-order", fmt.Sprintf("group %v (m=%d) is reported after the group %v (m=%d) that contains it", cbs[y].seg, cbs[y].m, cbs[x].seg, cbs[x].m)
					}
				}
			}
		}
	}
	return "", ""
}

func lcpMatrix(t []byte) [][]int16 {
	n := len(t)
	m := make([][]int16, n+1)
	for i := range m {
		m[i] = make([]int16, n+1)
	}
	for i := n - 1; i >= 0; i-- {
		for j := n - 1; j >= 0; j-- {
			if t[i] == t[j] {
				m[i][j] = m[i+1][j+1] + 1
			}
		}
	}
	return m
}

func (p *c10prop) Run(c *core.Case, st *core.Stats) []core.Violation {
	sc, err := decode[SfxCase](c)
	if err != nil {
		return []core.Violation{core.V(c, "harness", "bad case: %v", err)}
	}
	t := sc.Text
	if c.Kind == "bigseg" {
		class, msg := checkSegmentsBig(t, sc.Min, sc.Max, (c.Idx/8)%2 == 1, core.Rand(c.Seed, "C10", "bigseg-pairs", c.Idx), st)
		if class != "" {
			return []core.Violation{core.V(c, class, "text of %d bytes (family %s) minLen=%d maxLen=%d, suffix array from suffix.Sort (verified), LCP table by the harness (cases 8-15 of 16: from suffix.LCP): %s", len(t), sc.Family, sc.Min, sc.Max, msg)}
		}
		st.Inc("segments_calls")
		st.Inc("segments_calls_on_big_texts")
		st.NonTrivial(c)
		return nil
	}
	lm := lcpMatrix(t)
	// does the LCP profile fall and rise again (the shape on which a lost
	// left boundary shows)?
	if len(t) > 2 {
		l := ref.NaiveLCPTable(t, ref.NaiveSA(t))
		for i := 2; i+1 < len(l); i++ {
			if l[i] < l[i-1] && l[i+1] > l[i] && l[i] > 0 {
				st.Inc("texts_with_fall_and_rise_profile")
				break
			}
		}
	}
	run := func(mn, mx int) []core.Violation {
		for mode := 0; mode < 5; mode++ {
			if len(t) > 250 && mode != 4 && mode != 0 {
				continue // long texts: naive inputs and the library's pipeline
			}
			class, msg := checkSegments(t, lm, mn, mx, mode, st)
			st.Inc("segments_calls")
			st.Inc(fmt.Sprintf("segments_calls_mode%d", mode))
			if class != "" {
				return []core.Violation{core.V(c, class, "text %q minLen=%d maxLen=%d (mode %d: 0 callback copies, 1 callback sorts in place, 2 lcp and sa share one allocation, 3 callback calls Segments itself, 4 suffix array and LCP table from suffix.Sort and suffix.LCP): %s", t, mn, mx, mode, msg)}
			}
		}
		return nil
	}
	if len(t) == 0 {
		st.Inc("empty_text")
	}
	if sc.AllMM > 0 {
		for mn := 0; mn <= sc.AllMM; mn++ {
			for mx := mn; mx <= sc.AllMM; mx++ {
				if v := run(mn, mx); v != nil {
					return v
				}
			}
		}
	} else if v := run(sc.Min, sc.Max); v != nil {
		return v
	}
	if len(t) >= 3 {
		st.NonTrivial(c)
		if len(t) < 40 {
			st.Sample(c, 2)
		}
	}
	return nil
}

func init() {
	core.Register(&c10prop{base{id: "C10", level: "exploration",
		rule:        "exhaustive small scope: all texts over {a,b} up to length 12 (thorough 16) and over {a,b,c} up to length 7 (thorough 10), each with ALL 0 <= minLen <= maxLen <= 5 (thorough 6), plus seeded family texts up to 200 bytes with random (minLen, maxLen); Segments receives a naively computed suffix array and LCP table (independent of C09); each call runs in four modes: callback copies only / callback sorts the segment in place (as osap.go does) / lcp and sa are adjacent sub-slices of one allocation guarded by canaries / the callback calls Segments itself on another text; every clause is decided by brute force over all suffix pairs from a pairwise LCP matrix; non-trivial iff len(t) >= 3; distinct = distinct (text, bounds)",
		assumptions: []string{"minLen > maxLen and negative bounds are outside the quantifier of C10 and are not executed"},
		mandatory:   []string{"segments_calls", "pairs_checked", "texts_with_fall_and_rise_profile", "empty_text", "callbacks", "segments_calls_mode4", "segments_calls_on_big_texts", "lcp_intervals_checked", "nested_groups_order_checked", "texts_with_interval_nesting_deeper_than_64", "big_texts_with_the_librarys_lcp_table"}}})
}
