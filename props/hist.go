package props

import (
	"bytes"
	"fmt"
	"math/rand"
	"sort"
	"sync"

	"github.com/ulikunitz/lz"
	"verif/core"
	"verif/gen"
)

// histProp is the common frame of the properties decided on parser
// histories: it generates concrete histories and runs them under an observer
// created per case.
type histProp struct {
	base
	types   []string
	quickN  int64 // seeded cases per parser type (quick)
	thorMul int64 // multiplier for thorough
	corpusN int64 // seed-independent cases per parser type
	weights HWeights
	opts    func(typ string) gen.Opts
	// tweak may adjust a generated case (property specific shaping).
	tweak func(r *rand.Rand, pc *PCase, kind string)
	// newObs creates the observer for a case.
	newObs func(pc *PCase, ps *PState, c *core.Case, st *core.Stats) histObserver
	// large adds big-geometry kinds in the thorough tier.
	large bool
	// midtext adds single-fill texts of 2-60 kB over small alphabets (the
	// sizes at which the fallback sorters of the suffix sort run).
	midtext bool
	// far adds OSAP cases with windows of 600 bytes up to 256 KiB on data
	// with few repeats that are planted at the distances where the offset
	// cost changes (cost classes of the cost function, far short matches).
	far bool
	// fixed are hand-written directed cases (kind "fixed:<name>"), e.g. the
	// reproducers of recorded findings.
	fixed map[string]PCase
	// scale lists the scale scenarios (scale.go) run for every parser type.
	scale []string
	// duo adds histories of two objects that are interleaved.
	duo bool
}

// DuoCase: two histories, executed interleaved (one operation of one of them
// at a time, in the order given by Sched: bit i tells whose turn step i is).
type DuoCase struct {
	Sub   [2]PCase `json:"sub"`
	Sched []byte   `json:"sched"`
}

type histObserver interface {
	PObserver
	// Finish is called after the history; it reports whether the case was
	// non-trivial by the property's rule.
	Finish(ps *PState) (nontrivial bool)
}

// OverlapCase: several histories that run at the same time on parser
// instances of their own.
type OverlapCase struct {
	Sub []PCase `json:"sub"`
}

func (h *histProp) Plan(tier string, seed int64) []core.Segment {
	var segs []core.Segment
	if h.large || h.midtext || h.far {
		// distinct instances used from several goroutines at once must each
		// behave as they do alone
		segs = append(segs, core.Segment{Kind: "overlap", N: 12 * tierScale(tier, 3), Chunk: 1})
	}
	var names []string
	for name := range h.fixed {
		names = append(names, name)
	}
	sort.Strings(names)
	for _, name := range names {
		segs = append(segs, core.Segment{Kind: "fixed:" + name, N: 1})
	}
	for _, t := range h.types {
		segs = append(segs, core.Segment{Kind: "corpus:" + t, N: h.corpusN})
		segs = append(segs, core.Segment{Kind: t, N: h.quickN * tierScale(tier, h.thorMul)})
		if len(h.scale) > 0 {
			segs = append(segs, core.Segment{Kind: "scale:" + t, N: int64(len(h.scale)) * 2 * tierScale(tier, 6), Chunk: 1})
		}
		if h.duo {
			// two monitored objects whose histories are interleaved operation
			// by operation (buffers of 16 bytes to 8 KiB)
			segs = append(segs, core.Segment{Kind: "duo:" + t, N: 1500 * tierScale(tier, 20)})
		}
		if h.large {
			sa := t == "GSAP" || t == "OSAP"
			mid, lg, def := int64(500), int64(24), int64(1)
			if sa {
				mid, lg = 120, 6
			}
			if tier == "thorough" {
				mid, lg, def = mid*20, lg*10, 3
			}
			segs = append(segs, core.Segment{Kind: "long:" + t, N: mid})
			segs = append(segs, core.Segment{Kind: "mid:" + t, N: mid})
			segs = append(segs, core.Segment{Kind: "large:" + t, N: lg, Chunk: 2})
			segs = append(segs, core.Segment{Kind: "default:" + t, N: def, Chunk: 1})
			tp := int64(10)
			if sa {
				tp = 6
			}
			segs = append(segs, core.Segment{Kind: "twophase:" + t, N: tp * tierScale(tier, 10), Chunk: 2})
			// Shrink between the blocks of one big fill: hundreds of
			// kilobytes buffered, tens to hundreds of kilobytes still
			// unparsed at every Shrink
			bs := int64(6)
			if sa {
				bs = 2
			}
			segs = append(segs, core.Segment{Kind: "bigshrink:" + t, N: bs * tierScale(tier, 8), Chunk: 2})
			if !sa {
				// blocks larger than 64 KiB (also sizes that are no multiple
				// of 64 KiB) with several of them buffered: every sequence
				// of four Parse calls over flags 0 / NoTrailingLiterals /
				// nil block
				a := int64(len(shapeAlphabet(h.weights)) - 2)
				segs = append(segs, core.Segment{Kind: "bigblocks:" + t, N: a * a * a * a, Chunk: 9})
			}
			if sa {
				// short operation shapes on more than 64 Ki buffered positions:
				// a sample in the quick tier, all of them in the thorough tier
				a := int64(len(shapeAlphabet(h.weights)))
				n := a * a * a
				if tier == "thorough" {
					n = shapeCount(h.weights)
				}
				segs = append(segs, core.Segment{Kind: "shapes:" + t, N: n, Chunk: 2})
			}
		} else {
			if h.far {
				segs = append(segs, core.Segment{Kind: "far:" + t, N: 240 * tierScale(tier, 10), Chunk: 8},
					core.Segment{Kind: "farbig:" + t, N: 6 * tierScale(tier, 4), Chunk: 1})
			}
			if h.midtext {
				segs = append(segs, core.Segment{Kind: "midtext:" + t, N: 160 * tierScale(tier, 10), Chunk: 8},
					core.Segment{Kind: "midbstar:" + t, N: 2000 * tierScale(tier, 10), Chunk: 50})
			}
			segs = append(segs, core.Segment{Kind: "long:" + t, N: 300 * tierScale(tier, 20)})
			segs = append(segs, core.Segment{Kind: "bigblock:" + t, N: 160 * tierScale(tier, 10), Chunk: 10})
		}
	}
	return segs
}

const shapeLen = 5

// shapeAlphabet lists the operations of the shape enumeration; Parse(nil) is
// part of it for the properties whose histories contain it.
func shapeAlphabet(w HWeights) []POp {
	a := []POp{{K: "parse"}, {K: "parse", A: lz.NoTrailingLiterals}, {K: "write"}, {K: "shrink"}}
	if w.ParseNil > 0 {
		a = append(a, POp{K: "parse", B: 1})
	}
	return a
}

func shapeCount(w HWeights) int64 {
	n := int64(1)
	for i := 0; i < shapeLen; i++ {
		n *= int64(len(shapeAlphabet(w)))
	}
	return n
}

func splitKind(kind string) (class, typ string) {
	for i := 0; i < len(kind); i++ {
		if kind[i] == ':' {
			return kind[:i], kind[i+1:]
		}
	}
	return "", kind
}

// KindCPU: histories on buffers of a few hundred bytes take milliseconds
// (evidence: coverage.most_expensive_case.per_kind); a call that does not
// return is reported after 20 s of CPU time instead of 60.
func (h *histProp) KindCPU(kind, tier string) int {
	if kind == "overlap" {
		// (three rounds of up to eight histories with their oracles: 10 s of
		// CPU time measured for the optimum oracle of C11)
		return 300
	}
	switch class, _ := splitKind(kind); class {
	case "", "corpus", "long", "fixed", "mid", "duo":
		if tier == "thorough" {
			return 60
		}
		return 20
	}
	return 0
}

func (h *histProp) Gen(kind string, idx int64, seed int64, tier string) core.Case {
	if kind == "overlap" {
		r := core.Rand(seed, h.id, kind, idx)
		var oc OverlapCase
		for g, typ := range []string{"GSAP", "OSAP", "GSAP", "OSAP", "HP", "BUP", "OSAP", "BDHP"} {
			ok := false
			for _, t := range h.types {
				ok = ok || t == typ
			}
			if !ok {
				typ = h.types[g%len(h.types)]
			}
			o := gen.Opts{MaxBuf: 3000, MinBuf: 500}
			pc := GenPCase(r, typ, o, h.weights, 120, 20000)
			for i := range pc.Ops {
				if (pc.Ops[i].K == "write" || pc.Ops[i].K == "readfrom") && pc.Ops[i].A == 0 {
					pc.Ops[i].B *= 1 + r.Intn(10)
				}
			}
			pc.Cfg.TameBig()
			oc.Sub = append(oc.Sub, pc)
		}
		if idx%4 == 3 && h.id != "C11" {
			// (not for C11: its optimum oracle would need minutes for these)
			// four instances of one type with one configuration work through
			// streams of 25-50 kB in blocks of 0.5-2 KiB at the same time
			// (tenths of seconds of work each, so that the calls really overlap)
			typ := "OSAP"
			ok := false
			for _, t := range h.types {
				ok = ok || t == typ
			}
			if !ok {
				typ = h.types[int(idx/4)%len(h.types)]
			}
			cfg := gen.SmallCfg(r, typ, gen.Opts{})
			cfg.BufferSize = 8192 + r.Intn(8192)
			cfg.ShrinkSize = cfg.BufferSize / 2
			cfg.WindowSize = cfg.BufferSize
			cfg.BlockSize = 512 << uint(r.Intn(3))
			cfg.TameBig()
			oc.Sub = oc.Sub[:0]
			for g := 0; g < 4; g++ {
				stream := gen.Family(r, []string{"text", "rand4", "lzsynth", "text"}[g], 25000+r.Intn(25000), cfg.Hint())
				var ops []POp
				for len(ops) < 160 {
					ops = append(ops, POp{K: "write", A: 1, B: 0})
					for j := 0; j < cfg.BufferSize/cfg.BlockSize+1; j++ {
						ops = append(ops, POp{K: "parse", A: r.Intn(2)})
					}
					ops = append(ops, POp{K: "shrink"})
				}
				oc.Sub = append(oc.Sub, PCase{Cfg: cfg, Family: "twins", Stream: stream, Ops: ops})
			}
			return core.MkCase(h.id, kind, idx, seed, tier, oc)
		}
		if idx%2 == 1 {
			// the instances of one type share their configuration (whatever a
			// cache might be keyed by is equal)
			first := map[string]gen.Cfg{}
			for i := range oc.Sub {
				t := oc.Sub[i].Cfg.Type
				if c0, ok := first[t]; ok {
					oc.Sub[i].Cfg = c0
				} else {
					first[t] = oc.Sub[i].Cfg
				}
			}
		}
		return core.MkCase(h.id, kind, idx, seed, tier, oc)
	}
	class, typ := splitKind(kind)
	s := seed
	if class == "corpus" {
		s = 0 // the directed corpus does not depend on the seed
	}
	r := core.Rand(s, h.id, kind, idx)
	o := gen.Opts{}
	if h.opts != nil {
		o = h.opts(typ)
	}
	if class == "duo" {
		var dc DuoCase
		w := h.weights
		w.ResetData = 3*w.ResetData + 4
		w.Other = -1
		for g := 0; g < 2; g++ {
			t := typ
			if g == 1 && r.Intn(3) == 0 {
				t = h.types[r.Intn(len(h.types))]
			}
			og := o
			if og.MaxBuf == 0 && r.Intn(2) == 0 {
				og.MaxBuf, og.MinBuf = 8200, 600
			}
			pc := GenPCase(r, t, og, w, 40+r.Intn(80), 2000+r.Intn(12000))
			if g == 1 && r.Intn(2) == 0 {
				// same configuration as the first one
				pc.Cfg = dc.Sub[0].Cfg
				pc.Cfg.Type = dc.Sub[0].Cfg.Type
			}
			for i := range pc.Ops {
				op := &pc.Ops[i]
				if (op.K == "write" || op.K == "readfrom") && op.A == 0 {
					op.B *= 1 + r.Intn(1+pc.Cfg.BufferSize/200)
				}
				if op.K == "reset" && op.A >= 1 && op.A != 4 {
					op.B *= 1 + r.Intn(1+pc.Cfg.BufferSize/300)
				}
			}
			pc.Cfg.TameBig()
			dc.Sub[g] = pc
		}
		dc.Sched = make([]byte, 64)
		r.Read(dc.Sched)
		return core.MkCase(h.id, kind, idx, seed, tier, dc)
	}
	var pc PCase
	switch class {
	case "long":
		// long histories on small buffers: many fills, effects that
		// accumulate over many operations
		pc = GenPCase(r, typ, o, h.weights, 300+r.Intn(300), 4000+r.Intn(8000))
	case "bigblock":
		// blocks up to 4 KiB with small windows (keeps the O(n*W*L) and
		// O(n^2) oracles affordable)
		o.MaxBuf = 6000
		o.MinBuf = 600
		pc = GenPCase(r, typ, o, h.weights, 40+r.Intn(40), 6000+r.Intn(14000))
		pc.Cfg.BlockSize = 300 + r.Intn(3800)
		pc.Cfg.WindowSize = 2 + r.Intn(62)
		if typ == "GSAP" {
			pc.Cfg.WindowSize = pc.Cfg.BufferSize + r.Intn(2)
			pc.Cfg.BlockSize = 300 + r.Intn(1200)
		}
		if typ == "OSAP" && pc.Cfg.MaxMatchLen > 64 {
			pc.Cfg.MaxMatchLen = pc.Cfg.MinMatchLen + r.Intn(60)
		}
		for i := range pc.Ops {
			if (pc.Ops[i].K == "write" || pc.Ops[i].K == "readfrom") && pc.Ops[i].A == 0 {
				pc.Ops[i].B *= 1 + r.Intn(30)
			}
		}
	case "mid":
		// buffers beyond the first allocation sizes (1 KiB .. 8 KiB), write
		// sizes that land around the capacity steps
		o.MaxBuf = 8200
		o.MinBuf = 1000
		pc = GenPCase(r, typ, o, h.weights, 60+r.Intn(60), 6000+r.Intn(20000))
		pc.Cfg.BufferSize = []int{1000, 1017, 1018, 1024, 1025, 2041, 2048, 2055, 4096, 4103, 8192}[r.Intn(11)] + r.Intn(3)*r.Intn(700)
		if pc.Cfg.ShrinkSize >= pc.Cfg.BufferSize {
			pc.Cfg.ShrinkSize = pc.Cfg.BufferSize - 1
		}
		for i := range pc.Ops {
			if (pc.Ops[i].K == "write" || pc.Ops[i].K == "readfrom") && pc.Ops[i].A == 0 {
				pc.Ops[i].B = []int{1, 7, 8, 500, 508, 509, 510, 517, 520, 1000, 1017, 1024}[r.Intn(12)] + r.Intn(9)
			}
		}
	case "large":
		o.MaxBuf = 1 << 17
		o.MinBuf = 20000
		if typ == "GSAP" || typ == "OSAP" {
			o.MaxBuf = 70000
		}
		pc = GenPCase(r, typ, o, h.weights, 120, 60000+r.Intn(200000))
		pc.Cfg.BufferSize = []int{1<<16 - 9, 1<<16 - 8, 1<<16 - 7, 1<<16 - 1, 1 << 16, 1<<16 + 1, 1<<16 + 7, 40000, 100000}[r.Intn(9)]
		if r.Intn(3) == 0 {
			// every size around the first capacity step of ReadFrom
			pc.Cfg.BufferSize = 1<<16 + r.Intn(19) - 9
		}
		if o.MaxBuf < pc.Cfg.BufferSize {
			pc.Cfg.BufferSize = 1<<16 + r.Intn(17) - 8
		}
		if pc.Cfg.ShrinkSize >= pc.Cfg.BufferSize {
			pc.Cfg.ShrinkSize = pc.Cfg.BufferSize / 2
		}
		if r.Intn(2) == 0 {
			pc.Cfg.WindowSize = []int{1<<16 - 1, 1 << 16, 1<<16 + 1, 32768, 1 << 15}[r.Intn(5)]
		}
		if r.Intn(2) == 0 {
			pc.Cfg.BlockSize = []int{1 << 16, 1<<16 + 1, 1 << 15, 4096, 70000}[r.Intn(5)]
		}
		// large buffers need large writes to fill
		for i := range pc.Ops {
			if (pc.Ops[i].K == "write" || pc.Ops[i].K == "readfrom") && pc.Ops[i].A == 0 {
				pc.Ops[i].B *= 1 + r.Intn(200)
				if r.Intn(5) == 0 {
					pc.Ops[i].B = []int{32768, 65536, 65543}[r.Intn(3)] + r.Intn(17) - 8
				}
			}
			if pc.Ops[i].K == "wparse" && pc.Ops[i].C&1 == 0 {
				pc.Ops[i].D *= 1 + r.Intn(200)
			}
		}
	case "twophase":
		// buffers of 130-260 kB that are filled in two or three steps without
		// a Shrink in between: the search structures computed for the first
		// part (more than 64 Ki positions) are still there when data is
		// appended behind them; then the usual random history
		o.MaxBuf = 270000
		o.MinBuf = 130000
		pc = GenPCase(r, typ, o, h.weights, 40, 300000+r.Intn(300000))
		pc.Cfg.BufferSize = 135000 + r.Intn(130000)
		pc.Cfg.ShrinkSize = []int{0, 1000, 70000, pc.Cfg.BufferSize / 3}[r.Intn(4)]
		pc.Cfg.BlockSize = []int{8192, 16384, 32768, 32768, 65536, 50000, 65537, 70000, 100000, 131073}[r.Intn(10)]
		pc.Cfg.WindowSize = []int{0, 1 << 16, 1 << 17, 1 << 18, 4096}[r.Intn(5)]
		if (typ == "GSAP" || typ == "OSAP") && pc.Cfg.WindowSize == 0 {
			pc.Cfg.WindowSize = 1 << 17
		}
		w := h.weights
		w.Shrink, w.Reset, w.ResetData, w.Other = 0, 0, 0, -1
		w.Write, w.ReadFrom, w.WParse = 6, 3, 0
		phase1 := append([]POp{{K: "write", A: 0, B: 65536 + r.Intn(70000)}}, GenOps(r, 10+r.Intn(14), w)...)
		for i := range phase1[1:] {
			op := &phase1[1+i]
			if (op.K == "write" || op.K == "readfrom") && op.A == 0 {
				op.B = 1 + r.Intn(60000)
			}
		}
		for i := range pc.Ops {
			op := &pc.Ops[i]
			if (op.K == "write" || op.K == "readfrom") && op.A == 0 {
				op.B *= 1 + r.Intn(300)
			}
			if op.K == "wparse" && op.C&1 == 0 {
				op.D *= 1 + r.Intn(300)
			}
		}
		pc.Ops = append(phase1, pc.Ops...)
	case "far", "farbig":
		c := gen.SmallCfg(r, typ, o)
		c.MinMatchLen = 2 + r.Intn(2)
		c.MaxMatchLen = []int{c.MinMatchLen, 4, 8, 17, 18, 19, 273}[r.Intn(7)]
		if c.MaxMatchLen < c.MinMatchLen {
			c.MaxMatchLen = c.MinMatchLen
		}
		var n int
		if class == "far" {
			c.WindowSize = []int{600, 1024, 1025, 2048, 2049, 4096, 5000, 700}[r.Intn(8)]
			c.BufferSize = c.WindowSize + r.Intn(3000)
			c.BlockSize = 64 + r.Intn(1000)
			n = 2*c.BufferSize + r.Intn(4000)
		} else {
			c.MinMatchLen = 3
			c.WindowSize = 1 << 18
			c.BufferSize = 1<<18 + r.Intn(1000)
			c.BlockSize = 1<<15 + r.Intn(1<<15)
			if idx%2 == 1 {
				// blocks of 64-128 KiB (128 KiB is the default)
				c.BlockSize = []int{1 << 17, 65537 + r.Intn(65535), 100000}[r.Intn(3)]
			}
			n = 300000
		}
		c.ShrinkSize = r.Intn(c.BufferSize)
		// random bytes: almost no repeats by chance; short copies are planted
		// at the distances where the offset cost of the cost function changes
		stream := make([]byte, n)
		alpha := []int{256, 128, 64}[r.Intn(3)]
		for i := range stream {
			stream[i] = byte(r.Intn(alpha))
		}
		for i := 8; i+8 < n; i += 1 + r.Intn(40) {
			var d int
			switch r.Intn(4) {
			case 0:
				d = 1 << uint(2+r.Intn(17))
				d += r.Intn(3) - 1
			case 1:
				d = 513 + r.Intn(1536)
			case 2:
				d = c.WindowSize + r.Intn(3) - 1
			default:
				d = 131073 + r.Intn(100000)
				if class == "far" {
					d = 1 + r.Intn(c.WindowSize)
				}
			}
			if d < 1 || d > i {
				continue
			}
			l := c.MinMatchLen + r.Intn(3)
			if r.Intn(6) == 0 {
				l += r.Intn(30)
			}
			for j := 0; j < l && i+j < n; j++ {
				stream[i+j] = stream[i+j-d]
			}
			i += l
		}
		pc = PCase{Cfg: c, Family: "far", Stream: stream, Ops: GenOps(r, 40+r.Intn(40), h.weights)}
		if class == "farbig" {
			// every refill sorts 256 Ki suffixes: a short fixed history
			pc.Ops = []POp{{K: "write", A: 1, B: 0}}
			for j := 0; j < 6; j++ {
				pc.Ops = append(pc.Ops, POp{K: "parse"})
			}
			pc.Ops = append(pc.Ops, POp{K: "shrink"}, POp{K: "write", A: 1, B: 0}, POp{K: "parse"}, POp{K: "parse"})
		}
		for i := range pc.Ops {
			op := &pc.Ops[i]
			if (op.K == "write" || op.K == "readfrom") && op.A == 0 {
				op.B *= 1 + r.Intn(c.BufferSize/100+1)
			}
			if op.K == "wparse" && op.C&1 == 0 {
				op.D *= 1 + r.Intn(c.BufferSize/100+1)
			}
		}
	case "midbstar":
		// B*-shaped texts of 1-8 kB (records whose reduced ranks form runs,
		// ramps and tandem repeats: the inputs that exhaust the budget of the
		// tandem repeat sort), parsed in blocks of 300-2000 bytes
		n := 1000 + r.Intn(7000)
		c := gen.SmallCfg(r, typ, o)
		c.BufferSize, c.WindowSize, c.ShrinkSize = n+1000, n+1000, r.Intn(n/2)
		c.BlockSize = 300 + r.Intn(1700)
		if c.MinMatchLen > 4 {
			c.MinMatchLen = 2 + r.Intn(3)
		}
		stream := bstarText(r, n)
		if r.Intn(2) == 0 {
			stream = staircaseText(r)
			if len(stream) > c.BufferSize {
				c.BufferSize, c.WindowSize = len(stream)+10, len(stream)+10
			}
		}
		ops := []POp{{K: "write", A: 1, B: 0}}
		for j := 0; j < 40; j++ {
			ops = append(ops, POp{K: "parse", A: []int{0, 0, 0, lz.NoTrailingLiterals}[r.Intn(4)]})
		}
		pc = PCase{Cfg: c, Family: "bstar", Stream: stream, Ops: ops}
	case "midtext":
		// one fill of 2-60 kB over an alphabet of 2-4 letters, window at least
		// as large as the buffer, parsed in blocks of 1 kB up to everything
		n := []int{2000, 4000, 8000, 8000, 16000, 20000, 30000, 50000, 60000}[r.Intn(9)] + r.Intn(2000)
		c := gen.SmallCfg(r, typ, o)
		c.BufferSize, c.WindowSize, c.ShrinkSize = n, n+r.Intn(2)*r.Intn(100), r.Intn(n/2)
		c.BlockSize = []int{1000, 4000, n / 2, n, 2 * n}[r.Intn(5)]
		if c.MinMatchLen > 4 {
			c.MinMatchLen = 2 + r.Intn(3)
		}
		f := []string{"rand2", "rand2", "rand3", "rand4", "bstar", "tworuns"}[r.Intn(6)]
		var stream []byte
		if f == "bstar" {
			stream = bstarText(r, n+r.Intn(3)*r.Intn(n))
		} else {
			stream = gen.Family(r, f, n+r.Intn(3)*r.Intn(n), c.Hint())
		}
		ops := []POp{{K: "write", A: 1, B: 0}}
		for j := 0; j < 70; j++ {
			ops = append(ops, POp{K: "parse", A: []int{0, 0, 0, lz.NoTrailingLiterals}[r.Intn(4)]})
		}
		ops = append(ops, POp{K: "shrink"}, POp{K: "write", A: 1, B: 0})
		for j := 0; j < 40; j++ {
			ops = append(ops, POp{K: "parse"})
		}
		pc = PCase{Cfg: c, Family: f, Stream: stream, Ops: ops}
	case "bigshrink":
		c := gen.SmallCfg(r, typ, o)
		c.BufferSize = []int{0, 300000, 1 << 20, 500000}[r.Intn(4)]
		c.ShrinkSize = []int{0, 1000, 32768, 100000}[r.Intn(4)]
		c.BlockSize = []int{0, 16384, 32768, 65536, 50000}[r.Intn(5)]
		c.WindowSize = []int{0, 1 << 16, 1 << 20}[r.Intn(3)]
		n := 140000 + r.Intn(150000)
		if typ == "GSAP" || typ == "OSAP" {
			c.BufferSize, c.WindowSize = 300000, 1<<17
			n = 100000 + r.Intn(60000)
		}
		fam, stream := gen.Bytes(r, 2*n, c.Hint())
		ops := []POp{{K: "write", B: n}}
		for j := 0; j < 12; j++ {
			ops = append(ops, POp{K: "parse", A: r.Intn(2)}, POp{K: "shrink"})
			if h.weights.Probe > 0 {
				ops = append(ops, POp{K: "probe", A: r.Intn(6), B: 1 + r.Intn(8), C: r.Intn(3)})
			}
			if j == 5 {
				ops = append(ops, POp{K: "write", B: 20000 + r.Intn(60000)})
			}
		}
		pc = PCase{Cfg: c, Family: fam, Stream: stream, Ops: ops}
	case "bigblocks":
		var alpha []POp
		for _, op := range shapeAlphabet(h.weights) {
			if op.K == "parse" {
				alpha = append(alpha, op)
			}
		}
		c := gen.SmallCfg(r, typ, o)
		c.BlockSize = []int{65537, 70000, 100000, 131073, 1 << 16, 1 << 17, 65535, 196609}[r.Intn(8)]
		c.BufferSize = 4*c.BlockSize + 1000 + r.Intn(5000)
		c.ShrinkSize = r.Intn(c.BufferSize / 2)
		c.WindowSize = []int{0, 1 << 16, 1 << 20, 4096}[r.Intn(4)]
		fam, stream := gen.Bytes(r, c.BufferSize+c.BlockSize, c.Hint())
		ops := []POp{{K: "write", A: 1, B: 0}}
		code := idx
		for j := 0; j < 4; j++ {
			ops = append(ops, alpha[code%int64(len(alpha))])
			code /= int64(len(alpha))
		}
		ops = append(ops, POp{K: "shrink"}, POp{K: "write", A: 1, B: 0})
		for j := 0; j < 6; j++ {
			ops = append(ops, POp{K: "parse"})
		}
		pc = PCase{Cfg: c, Family: fam, Stream: stream, Ops: ops}
	case "shapes":
		// [Write of more than 64 KiB, Parse] followed by every sequence of 5
		// operations over Parse / Parse(NoTrailingLiterals) / Parse(nil) /
		// Write / Shrink, with a block size of about half the first write so
		// that the second or third block crosses the end of the data the
		// search structures were computed for
		alpha := shapeAlphabet(h.weights)
		total := shapeCount(h.weights)
		code := idx
		if tier != "thorough" {
			// quick: data is appended right after the first block, then all
			// sequences of three operations, then a random one
			a := int64(len(alpha))
			code = 2 + a*(idx%(a*a*a)) + a*a*a*a*r.Int63n(a)
		}
		_ = total
		n1 := 65536 + r.Intn(6000)
		c := gen.SmallCfg(r, typ, o)
		c.BufferSize = 140000 + r.Intn(60000)
		c.ShrinkSize = []int{0, 1000, 40000}[r.Intn(3)]
		c.BlockSize = n1/2 - 3000 + r.Intn(6000)
		c.WindowSize = []int{1 << 16, 1 << 17, 1 << 18, 4096}[r.Intn(4)]
		fam, stream := gen.Bytes(r, 250000, c.Hint())
		ops := []POp{{K: "write", B: n1}, {K: "parse"}}
		for j := 0; j < shapeLen; j++ {
			op := alpha[code%int64(len(alpha))]
			code /= int64(len(alpha))
			if op.K == "write" {
				op.B = 1 + r.Intn(50000)
			}
			ops = append(ops, op)
		}
		// drain what is left with normal blocks
		for j := 0; j < 8; j++ {
			ops = append(ops, POp{K: "parse"})
		}
		pc = PCase{Cfg: c, Family: fam, Stream: stream, Ops: ops}
	case "default":
		c := gen.Cfg{Type: typ}
		if typ == "GSAP" || typ == "OSAP" {
			// the suffix array parsers are slow: bound the buffer
			c.BufferSize = 1 << 18
			c.WindowSize = 1 << 18
		}
		_, stream := gen.Bytes(r, 600000, c.Hint())
		pc = PCase{Cfg: c, Family: "mixed", Stream: stream, Ops: GenOps(r, 60, h.weights)}
		for i := range pc.Ops {
			if pc.Ops[i].K == "write" || pc.Ops[i].K == "readfrom" {
				pc.Ops[i].A, pc.Ops[i].B = 0, 50000+r.Intn(200000)
			}
		}
	case "fixed":
		pc = h.fixed[typ]
	case "scale":
		pc = h.genScale(r, typ, idx, o)
	default:
		nops := 20 + r.Intn(61)
		pc = GenPCase(r, typ, o, h.weights, nops, 200+r.Intn(1000))
	}
	if h.tweak != nil && class != "fixed" && class != "scale" && class != "far" && class != "farbig" && class != "midtext" && class != "midbstar" {
		h.tweak(r, &pc, kind)
	}
	if class != "fixed" {
		pc.Cfg.TameBig()
	}
	return core.MkCase(h.id, kind, idx, seed, tier, pc)
}

// runOverlap runs the sub-histories of an overlap case concurrently, each on
// its own parser under its own observer, for three rounds.
func (h *histProp) runOverlap(c *core.Case, st *core.Stats) []core.Violation {
	oc, err := decode[OverlapCase](c)
	if err != nil {
		return []core.Violation{core.V(c, "harness", "bad case: %v", err)}
	}
	for round := 0; round < 3; round++ {
		type res struct {
			class, msg string
			st         *core.Stats
		}
		out := make([]res, len(oc.Sub))
		var wg sync.WaitGroup
		start := make(chan struct{})
		for g := range oc.Sub {
			wg.Add(1)
			go func(g int) {
				defer wg.Done()
				pc := oc.Sub[g]
				sub := core.NewStats()
				out[g].st = sub
				defer func() {
					if pv := recover(); pv != nil {
						out[g].class, out[g].msg = "panic", fmtPanic(pv)
					}
				}()
				<-start
				ps, nerr := NewParserFor(pc.Cfg)
				if nerr != nil {
					return
				}
				obs := h.newObs(&pc, ps, c, sub)
				out[g].class, out[g].msg, _ = RunHistory(ps, &pc, obs)
			}(g)
		}
		close(start)
		wg.Wait()
		for g, o := range out {
			st.Merge(o.st, 0)
			if o.class != "" {
				return []core.Violation{core.V(c, o.class, "%s cfg=%+v, one of %d parser instances used from goroutines of their own at the same time (round %d): %s", oc.Sub[g].Cfg.Type, oc.Sub[g].Cfg, len(oc.Sub), round, o.msg)}
			}
		}
		st.Inc("overlapping_history_groups")
	}
	st.NonTrivial(c)
	return nil
}

// runDuo executes two histories interleaved: two goroutines of which only one
// runs at any time (the turn is handed over before an operation), so the
// interleaving is the one the case describes.
func (h *histProp) runDuo(c *core.Case, st *core.Stats) []core.Violation {
	dc, err := decode[DuoCase](c)
	if err != nil {
		return []core.Violation{core.V(c, "harness", "bad case: %v", err)}
	}
	var ps [2]*PState
	for g := range ps {
		var nerr error
		if pv := call(func() { ps[g], nerr = NewParserFor(dc.Sub[g].Cfg) }); pv != nil {
			return []core.Violation{core.V(c, "panic", "NewParser: %s", fmtPanic(pv))}
		}
		if nerr != nil {
			st.Inc("config_rejected")
			return nil
		}
	}
	type res struct{ class, msg string }
	var out [2]res
	var obs [2]histObserver
	var sub [2]*core.Stats
	wake := [2]chan struct{}{make(chan struct{}, 1), make(chan struct{}, 1)}
	var done [2]bool
	step := 0
	yield := func(g int) func() {
		return func() {
			o := 1 - g
			if done[o] || len(dc.Sched) == 0 {
				return
			}
			turn := int(dc.Sched[(step/8)%len(dc.Sched)]>>(uint(step)%8)) & 1
			step++
			if turn == g {
				return
			}
			wake[o] <- struct{}{}
			<-wake[g]
		}
	}
	var wg sync.WaitGroup
	for g := 0; g < 2; g++ {
		sub[g] = core.NewStats()
		obs[g] = h.newObs(&dc.Sub[g], ps[g], c, sub[g])
		ps[g].yield = yield(g)
		wg.Add(1)
		go func(g int) {
			defer wg.Done()
			if g == 1 {
				<-wake[1]
			}
			defer func() {
				if pv := recover(); pv != nil {
					out[g] = res{"panic", fmtPanic(pv)}
				}
				done[g] = true
				if !done[1-g] {
					wake[1-g] <- struct{}{}
				}
			}()
			cl, msg, _ := RunHistory(ps[g], &dc.Sub[g], &transObserver{obs[g], sub[g]})
			out[g] = res{cl, msg}
		}(g)
	}
	wg.Wait()
	for g := 0; g < 2; g++ {
		st.Merge(sub[g], 0)
		if out[g].class != "" {
			return []core.Violation{core.V(c, out[g].class, "%s cfg=%+v, object %d of two objects (the other: %s cfg=%+v) whose histories are interleaved: %s", dc.Sub[g].Cfg.Type, dc.Sub[g].Cfg, g, dc.Sub[1-g].Cfg.Type, dc.Sub[1-g].Cfg, out[g].msg)}
		}
	}
	st.Inc("interleaved_history_pairs")
	st.Add("interleaved_operations", int64(step))
	if obs[0].Finish(ps[0]) || obs[1].Finish(ps[1]) {
		st.NonTrivial(c)
	}
	return nil
}

func (h *histProp) Run(c *core.Case, st *core.Stats) []core.Violation {
	if c.Kind == "overlap" {
		return h.runOverlap(c, st)
	}
	if cl, _ := splitKind(c.Kind); cl == "duo" {
		return h.runDuo(c, st)
	}
	pc, err := decode[PCase](c)
	if err != nil {
		return []core.Violation{core.V(c, "harness", "bad case: %v", err)}
	}
	var ps *PState
	var nerr error
	if pv := call(func() { ps, nerr = NewParserFor(pc.Cfg) }); pv != nil {
		return []core.Violation{core.V(c, "panic", "NewParser: %s", fmtPanic(pv))}
	}
	if nerr != nil {
		// generators only produce configurations that are documented as
		// valid; C16 decides acceptance
		st.Inc("config_rejected")
		return nil
	}
	if c.Idx%4 == 2 && (h.id == "C01" || h.id == "C02" || h.id == "C03") {
		// a new Block value for every Parse call, the earlier ones kept
		ps.FreshBlocks = true
		st.Inc("histories_with_a_new_block_per_parse")
	}
	obs := h.newObs(pc, ps, c, st)
	class, msg, _ := RunHistory(ps, pc, &transObserver{obs, st})
	if class != "" {
		return []core.Violation{core.V(c, class, "%s cfg=%+v: %s", pc.Cfg.Type, pc.Cfg, msg)}
	}
	if msg != "" {
		st.Inc("histories_aborted_by_model_desync")
	}
	st.Inc("histories")
	st.Inc("histories:" + pc.Cfg.Type)
	if obs.Finish(ps) {
		st.NonTrivial(c)
		st.Sample(c, 2)
	}
	return nil
}

// transObserver records the abstract transition of every step.
type transObserver struct {
	inner PObserver
	st    *core.Stats
}

func (t *transObserver) Observe(ev *PEvent, ps *PState) (string, string) {
	transition(ev, ps, t.st)
	return t.inner.Observe(ev, ps)
}

// ---- helpers shared by the observers --------------------------------------

// blockStats walks the sequences of a successfully parsed block and calls f
// with the absolute position of every match.
func walkSeqs(ev *PEvent, f func(i int, s lz.Seq, pos int64)) {
	pos := ev.PreW
	for i, s := range ev.Blk.Sequences {
		pos += int64(s.LitLen)
		f(i, s, pos)
		pos += int64(s.MatchLen)
	}
}

func isParseOK(ev *PEvent) bool {
	return ev.Op.K == "parse" && !ev.Nil && ev.Panic == nil && ev.Err == nil
}

// commonReach counts the events all history monitors report.
type commonReach struct {
	st            *core.Stats
	blocksMatch   int
	shrinkPos     int
	resets        int
	lastShrinkFed int64 // len(Fed) at the last shrink that discarded bytes
	blocksAfter   int   // blocks with a match parsed after a shrink / reset
}

func (cr *commonReach) observe(ev *PEvent, ps *PState) {
	st := cr.st
	if ev.Wrapped {
		switch {
		case ev.Op.K == "shrink" && ev.Delta > 0:
			st.Inc("wrap:shrink_discarding")
		case ev.Op.K == "readfrom" && ev.N > 0:
			st.Inc("wrap:refills")
		case isParseOK(ev) && len(ev.Blk.Sequences) > 0:
			st.Inc("wrap:blocks_with_match")
		}
	}
	switch ev.Op.K {
	case "wparse":
		st.Inc("wrap:parse_calls")
		if ev.InnerCalls > 1 {
			st.Inc("wrap:parse_calls_that_refilled")
		}
		if ev.Err != nil {
			st.Inc("wrap:parse_" + errName(ev.Err))
		}
	case "shrink":
		if ev.Delta > 0 {
			cr.shrinkPos++
			cr.lastShrinkFed = ev.PreFed
			st.Inc("shrink_discarding")
		}
	case "reset":
		if ev.Err == nil {
			cr.resets++
			cr.lastShrinkFed = 0
			st.Inc("resets_ok")
			st.Inc(fmt.Sprintf("reset_mode%d", ev.Op.A))
		}
	case "parse":
		if !isParseOK(ev) {
			return
		}
		st.Inc("blocks")
		if len(ev.Blk.Sequences) > 0 {
			st.Inc("blocks_with_match")
			cr.blocksMatch++
			if ev.PreOff > 0 || cr.resets > 0 {
				cr.blocksAfter++
				st.Inc("blocks_with_match_after_shrink_or_reset")
			}
			walkSeqs(ev, func(i int, s lz.Seq, pos int64) {
				st.Inc("sequences")
				src := pos - int64(s.Offset)
				if ev.PreOff > 0 && src < cr.lastShrinkFed && src >= ev.PreOff {
					st.Inc("matches_with_source_retained_across_shrink")
				}
				if src < ev.PreW {
					st.Inc("matches_with_source_before_block")
				}
				if int64(s.Offset) < int64(s.MatchLen) {
					st.Inc("overlapping_matches")
				}
			})
		}
		if ev.Flags&lz.NoTrailingLiterals != 0 {
			st.Inc("blocks_ntl")
		}
	}
}

func (cr *commonReach) nontrivial() bool {
	return cr.blocksMatch > 0 && (cr.shrinkPos > 0 || cr.resets > 0) && cr.blocksAfter > 0
}

// ---------------------------------------------------------------- C01

type c01obs struct {
	cr commonReach
}

func (o *c01obs) Observe(ev *PEvent, ps *PState) (string, string) {
	if ev.Panic != nil {
		return "panic", fmtPanic(ev.Panic)
	}
	o.cr.observe(ev, ps)
	if !isParseOK(ev) {
		return "", ""
	}
	if ev.ExpandErr != nil {
		return "unexpandable-block", fmt.Sprintf("block cannot be expanded: %v; block=%+v", ev.ExpandErr, *ev.Blk)
	}
	want := ev.PreW + ev.N
	if int64(len(ev.NewDec)) != want {
		return "consumed-mismatch", fmt.Sprintf("expansion has %d bytes but %d bytes are consumed (n=%d)", len(ev.NewDec), want, ev.N)
	}
	if want > int64(len(ps.Fed)) || !bytes.Equal(ev.NewDec[ev.PreW:], ps.Fed[ev.PreW:want]) {
		i := ev.PreW
		for i < want && i < int64(len(ps.Fed)) && ev.NewDec[i] == ps.Fed[i] {
			i++
		}
		return "expand-mismatch", fmt.Sprintf("expansion differs from the bytes fed at stream position %d (block starts at %d, n=%d); block=%+v", i, ev.PreW, ev.N, *ev.Blk)
	}
	return "", ""
}

func (o *c01obs) Finish(ps *PState) bool { return o.cr.nontrivial() }

func init() {
	core.Register(&histProp{
		base: base{id: "C01", level: "exploration",
			rule:        "seeded random parser histories (Write/ReadFrom with chunk plans/Parse with both flags/Shrink/Reset incl. aliasing paths) over boundary-biased small configurations of all 7 parsers and adversarial byte families; a fixed-seed directed corpus is included; a case is non-trivial iff it contains a block with a match parsed after a Shrink that discarded bytes or after a Reset; distinct = distinct concrete case (fingerprint of config+stream+ops)",
			assumptions: []string{"the harness' byte-list expander and model of fed bytes are correct", "Write/ReadFrom counts are trusted for the model (C15 decides them)"},
			mandatory:   []string{"blocks_with_match", "shrink_discarding", "blocks_with_match_after_shrink_or_reset", "matches_with_source_retained_across_shrink", "reset_mode2", "blocks_ntl", "wrap:blocks_with_match", "wrap:refills", "wrap:shrink_discarding", "wrap:parse_EOF"},
			expected:    []string{"overlapping_matches", "reset_mode3", "matches_with_source_before_block"}},
		types: gen.ParserTypes, quickN: 12000, thorMul: 40, corpusN: 300, large: true,
		weights: DefaultWeights, scale: scaleAll, duo: true,
		newObs: func(pc *PCase, ps *PState, c *core.Case, st *core.Stats) histObserver {
			return &c01obs{cr: commonReach{st: st}}
		},
	})
}

// ---------------------------------------------------------------- C02

type c02obs struct {
	cr  commonReach
	st  *core.Stats
	eff gen.Cfg
}

func (o *c02obs) Observe(ev *PEvent, ps *PState) (string, string) {
	if ev.Panic != nil {
		return "panic", fmtPanic(ev.Panic)
	}
	o.cr.observe(ev, ps)
	if !isParseOK(ev) {
		return "", ""
	}
	minM := int64(o.eff.MinMatch())
	var class, msg string
	var sumLit int64
	walkSeqs(ev, func(i int, s lz.Seq, pos int64) {
		if class != "" {
			return
		}
		sumLit += int64(s.LitLen)
		switch {
		case s.Offset == 0:
			class, msg = "offset-zero", fmt.Sprintf("sequence %d %+v has Offset 0", i, s)
		case int64(s.Offset) > int64(ps.WindowSize):
			class, msg = "offset-beyond-window", fmt.Sprintf("sequence %d %+v: Offset > WindowSize %d", i, s, ps.WindowSize)
		case int64(s.Offset) > pos:
			class, msg = "offset-before-stream", fmt.Sprintf("sequence %d %+v: Offset > %d bytes preceding the match", i, s, pos)
		case int64(s.MatchLen) < minM:
			class, msg = "match-too-short", fmt.Sprintf("sequence %d %+v: MatchLen < minimum %d", i, s, minM)
		case o.eff.Type == "OSAP" && int64(s.MatchLen) > int64(o.eff.MaxMatchLen):
			class, msg = "match-too-long", fmt.Sprintf("sequence %d %+v: MatchLen > MaxMatchLen %d", i, s, o.eff.MaxMatchLen)
		case s.Aux != 0:
			class, msg = "aux-nonzero", fmt.Sprintf("sequence %d %+v: Aux != 0", i, s)
		}
		if class == "" {
			w := int64(ps.WindowSize)
			switch {
			case int64(s.Offset) == w:
				o.st.Inc("offset==WindowSize")
			case int64(s.Offset) == w-1:
				o.st.Inc("offset==WindowSize-1")
			case int64(s.Offset)*2 > w:
				o.st.Inc("offset>WindowSize/2")
			}
			if int64(s.Offset) == pos {
				o.st.Inc("offset==stream_position")
			}
			if int64(s.MatchLen) == minM {
				o.st.Inc("matchlen==minimum")
			}
			if o.eff.Type == "OSAP" && int(s.MatchLen) == o.eff.MaxMatchLen {
				o.st.Inc("matchlen==MaxMatchLen")
			}
		}
	})
	if class != "" {
		return class, msg
	}
	if sumLit > int64(len(ev.Blk.Literals)) {
		return "litlen-exceeds-literals", fmt.Sprintf("sum of LitLen %d > %d literals", sumLit, len(ev.Blk.Literals))
	}
	return "", ""
}

func (o *c02obs) Finish(ps *PState) bool { return o.cr.blocksMatch > 0 }

func init() {
	core.Register(&histProp{
		base: base{id: "C02", level: "exploration",
			rule:        "same history executor as C01 with WindowSize drawn smaller/equal/larger than BufferSize, ShrinkSize and BlockSize (incl. WindowSize 1 and MinMatchLen) and LZ-synthetic strings with repeats exactly at distance WindowSize-1/WindowSize/WindowSize+1; every sequence of every block is checked; non-trivial iff the history produced at least one block with a match; distinct = distinct concrete case",
			assumptions: []string{"positions are tracked by the harness' model of the stream; WindowSize and minimum match length are taken from the explicit configuration fields (defaults via the library's SetDefaults)"},
			mandatory:   []string{"sequences", "offset==WindowSize", "matchlen==minimum", "shrink_discarding", "offset==stream_position", "wrap:blocks_with_match"},
			expected:    []string{"offset==WindowSize-1", "matchlen==MaxMatchLen"}},
		types: gen.ParserTypes, quickN: 12000, thorMul: 40, corpusN: 300, large: true,
		weights: HWeights{Write: 18, ReadFrom: 8, Parse: 30, ParseNTL: 10, ParseNil: 6, Shrink: 14, Reset: 1, ResetData: 2, WParse: 8, Faults: true},
		scale:   []string{"manyseq", "longtail", "noiserun", "longmatch", "ntlburst", "hugeblock", "noisecopy", "maxwindow", "maxwindow", "maxwindow", "maxwindow", "maxwindow"},
		tweak: func(r *rand.Rand, pc *PCase, kind string) {
			// windows smaller than the data so that the guard is under load
			if r.Intn(2) == 0 {
				w := 1 + r.Intn(12)
				if (pc.Cfg.Type == "GSAP") && w < pc.Cfg.MinMatchLen {
					w = pc.Cfg.MinMatchLen
				}
				pc.Cfg.WindowSize = w
				pc.Stream = gen.Family(r, "lzsynth", len(pc.Stream), pc.Cfg.Hint())
				pc.Family = "lzsynth"
			}
		},
		newObs: func(pc *PCase, ps *PState, c *core.Case, st *core.Stats) histObserver {
			return &c02obs{cr: commonReach{st: st}, st: st, eff: ps.Eff}
		},
	})
}

// ---------------------------------------------------------------- C03

type c03obs struct {
	cr commonReach
	st *core.Stats
	// consecutive parse calls since data was added
	burst int
}

func (o *c03obs) Observe(ev *PEvent, ps *PState) (string, string) {
	if ev.Panic != nil {
		return "panic", fmtPanic(ev.Panic)
	}
	o.cr.observe(ev, ps)
	if ev.Op.K != "parse" {
		if ev.Op.K == "write" || ev.Op.K == "readfrom" || ev.Op.K == "reset" {
			o.burst = 0
		}
		return "", ""
	}
	unparsed := ev.PreFed - ev.PreW
	if ev.Nil {
		// what Parse(nil) returns in detail is C14's business; the bounds of
		// n and the ErrEmptyBuffer rule hold for every Parse call
		switch {
		case unparsed == 0:
			if ev.Err != lz.ErrEmptyBuffer || ev.N != 0 {
				return "no-ErrEmptyBuffer", fmt.Sprintf("Parse(nil): no unparsed data but err=%v n=%d", ev.Err, ev.N)
			}
		case ev.Err != nil:
			return "unexpected-error", fmt.Sprintf("Parse(nil) with %d unparsed bytes returned %v", unparsed, ev.Err)
		case !(1 <= ev.N && ev.N <= int64(ps.BlockSize)) || ev.N > unparsed:
			return "n-out-of-range", fmt.Sprintf("Parse(nil): n=%d not in [1, BlockSize=%d] with %d unparsed bytes", ev.N, ps.BlockSize, unparsed)
		}
		o.st.Inc("parse_nil_calls")
		return "", ""
	}
	blk := ev.Blk
	if unparsed == 0 {
		if ev.Err != lz.ErrEmptyBuffer {
			return "no-ErrEmptyBuffer", fmt.Sprintf("no unparsed data but err=%v n=%d", ev.Err, ev.N)
		}
		if ev.N != 0 {
			return "ErrEmptyBuffer-n", fmt.Sprintf("ErrEmptyBuffer with n=%d", ev.N)
		}
		if len(blk.Sequences) != 0 || len(blk.Literals) != 0 {
			return "ErrEmptyBuffer-block-not-emptied", fmt.Sprintf("ErrEmptyBuffer but block holds %d sequences, %d literals", len(blk.Sequences), len(blk.Literals))
		}
		o.st.Inc("empty_buffer_reports")
		return "", ""
	}
	if ev.Err == lz.ErrEmptyBuffer {
		return "spurious-ErrEmptyBuffer", fmt.Sprintf("%d unparsed bytes buffered but ErrEmptyBuffer (n=%d)", unparsed, ev.N)
	}
	if ev.Err != nil {
		return "unexpected-error", fmt.Sprintf("Parse returned %v", ev.Err)
	}
	if !(1 <= ev.N && ev.N <= int64(ps.BlockSize)) {
		return "n-out-of-range", fmt.Sprintf("n=%d not in [1, BlockSize=%d] with %d unparsed bytes", ev.N, ps.BlockSize, unparsed)
	}
	if ev.ExpandErr != nil {
		return "unexpandable-block", ev.ExpandErr.Error()
	}
	explen := int64(len(ev.NewDec)) - ev.PreW
	if explen != ev.N {
		return "n-differs-from-block", fmt.Sprintf("n=%d but the block expands to %d bytes; block=%+v", ev.N, explen, *blk)
	}
	var sumLit, sumMatch int64
	for _, s := range blk.Sequences {
		sumLit += int64(s.LitLen)
		sumMatch += int64(s.MatchLen)
	}
	ntl := ev.Flags&lz.NoTrailingLiterals != 0
	if !ntl {
		if bl := int64(len(blk.Literals)) + sumMatch; bl != ev.N {
			return "n-differs-from-Len", fmt.Sprintf("flags 0: n=%d but the block has %d literals and matches of %d bytes", ev.N, len(blk.Literals), sumMatch)
		}
		// the library's own Block.Len is what the statement refers to
		var libLen int64
		if pv := call(func() { libLen = blk.Len() }); pv != nil {
			return "panic", "Block.Len: " + fmtPanic(pv)
		}
		if libLen != ev.N {
			return "n-differs-from-Len", fmt.Sprintf("flags 0: n=%d but Block.Len()=%d", ev.N, libLen)
		}
	}
	if ev.PreW+ev.N > int64(len(ps.Fed)) || !bytes.Equal(ev.NewDec[ev.PreW:], ps.Fed[ev.PreW:ev.PreW+ev.N]) {
		return "gap-or-overlap", fmt.Sprintf("block at stream position %d (n=%d) does not continue the stream contiguously", ev.PreW, ev.N)
	}
	q := "flags0"
	if ntl {
		q = "ntl"
	}
	if len(blk.Sequences) > 0 {
		q += ",seqs"
		if ntl {
			if int64(len(blk.Literals)) != sumLit {
				return "ntl-trailing-literals", fmt.Sprintf("NoTrailingLiterals: block carries %d literals but sequences claim %d", len(blk.Literals), sumLit)
			}
			if ev.N != sumLit+sumMatch {
				return "ntl-n", fmt.Sprintf("NoTrailingLiterals: n=%d but sequences cover %d", ev.N, sumLit+sumMatch)
			}
			if ev.N < min64(unparsed, int64(ps.BlockSize)) {
				o.st.Inc("ntl_blocks_with_bytes_offered_again")
			}
		}
	} else {
		q += ",noseqs"
	}
	o.st.Inc("quadrant:" + q)
	switch {
	case unparsed > int64(ps.BlockSize):
		o.st.Inc("unparsed>BlockSize")
	case unparsed == int64(ps.BlockSize):
		o.st.Inc("unparsed==BlockSize")
	default:
		o.st.Inc("unparsed<BlockSize")
	}
	o.burst++
	if o.burst == 2 {
		o.st.Inc("second_parse_of_a_fill")
	}
	return "", ""
}

func min64(a, b int64) int64 {
	if a < b {
		return a
	}
	return b
}

func (o *c03obs) Finish(ps *PState) bool { return o.cr.blocksMatch > 0 && ps.Parses >= 3 }

func init() {
	core.Register(&histProp{
		base: base{id: "C03", level: "exploration",
			rule:        "same history executor as C01; every Parse call is checked with both flag values occurring at every call site (sentinel content is put into the block before each call); non-trivial iff the history has >= 3 Parse calls and a block with a match; distinct = distinct concrete case",
			assumptions: []string{"n == min(BlockSize, unparsed) is deliberately NOT asserted for a normal Parse (C03 does not state it)"},
			mandatory:   []string{"quadrant:flags0,seqs", "quadrant:flags0,noseqs", "quadrant:ntl,seqs", "quadrant:ntl,noseqs", "empty_buffer_reports", "unparsed>BlockSize", "unparsed<BlockSize", "second_parse_of_a_fill", "ntl_blocks_with_bytes_offered_again", "wrap:parse_calls_that_refilled", "wrap:blocks_with_match"},
			expected:    []string{"unparsed==BlockSize"}},
		types: gen.ParserTypes, quickN: 12000, thorMul: 40, corpusN: 300, large: true,
		weights: HWeights{Write: 18, ReadFrom: 8, Parse: 26, ParseNTL: 22, ParseNil: 5, Shrink: 10, Reset: 1, ResetData: 2, WParse: 10, Faults: true},
		scale:   scaleAll, duo: true,
		newObs: func(pc *PCase, ps *PState, c *core.Case, st *core.Stats) histObserver {
			return &c03obs{cr: commonReach{st: st}, st: st}
		},
	})
}

// ---------------------------------------------------------------- C14

type c14obs struct {
	cr      commonReach
	st      *core.Stats
	nilSeen int
	// skipped marks the stream ranges consumed by Parse(nil) since Reset
	skipped [][2]int64
	refSkip int
}

func (o *c14obs) Observe(ev *PEvent, ps *PState) (string, string) {
	if ev.Panic != nil {
		return "panic", fmtPanic(ev.Panic)
	}
	o.cr.observe(ev, ps)
	if ev.Op.K == "reset" && ev.Err == nil {
		o.skipped = o.skipped[:0]
	}
	if ev.Op.K != "parse" {
		return "", ""
	}
	unparsed := ev.PreFed - ev.PreW
	if ev.Nil {
		o.nilSeen++
		if unparsed == 0 {
			if ev.Err != lz.ErrEmptyBuffer || ev.N != 0 {
				return "nil-empty", fmt.Sprintf("Parse(nil) with nothing buffered returned n=%d err=%v", ev.N, ev.Err)
			}
			o.st.Inc("parse_nil_empty")
			return "", ""
		}
		want := min64(int64(ps.BlockSize), unparsed)
		if ev.Err != nil {
			return "nil-error", fmt.Sprintf("Parse(nil) with %d unparsed bytes returned err=%v", unparsed, ev.Err)
		}
		if ev.N != want {
			return "nil-n", fmt.Sprintf("Parse(nil) returned n=%d, want min(BlockSize=%d, unparsed=%d)", ev.N, ps.BlockSize, unparsed)
		}
		o.skipped = append(o.skipped, [2]int64{ev.PreW, ev.PreW + ev.N})
		o.st.Inc("parse_nil_skips")
		if ev.N < unparsed {
			o.st.Inc("parse_nil_partial_drain")
		}
		return "", ""
	}
	if ev.Err != nil || o.nilSeen == 0 {
		return "", ""
	}
	// a normal block after skipped data: must continue exactly at w and be
	// expandable by a decoder that holds the skipped bytes verbatim
	if ev.ExpandErr != nil {
		return "unexpandable-after-skip", ev.ExpandErr.Error()
	}
	want := int64(len(ev.NewDec))
	if want != ev.PreW+ev.N || want > int64(len(ps.Fed)) || !bytes.Equal(ev.NewDec[ev.PreW:], ps.Fed[ev.PreW:want]) {
		return "block-after-skip-wrong", fmt.Sprintf("block parsed after Parse(nil) does not reproduce the stream at position %d (n=%d, expansion %d bytes)", ev.PreW, ev.N, want-ev.PreW)
	}
	o.st.Inc("blocks_after_skip")
	walkSeqs(ev, func(i int, s lz.Seq, pos int64) {
		src := pos - int64(s.Offset)
		for _, rg := range o.skipped {
			if src < rg[1] && src+int64(s.MatchLen) > rg[0] {
				o.refSkip++
				o.st.Inc("matches_referencing_skipped_bytes")
				break
			}
		}
	})
	return "", ""
}

func (o *c14obs) Finish(ps *PState) bool { return o.nilSeen > 0 && o.cr.blocksMatch > 0 }

func init() {
	core.Register(&histProp{
		base: base{id: "C14", level: "exploration",
			rule:        "parser histories with about 30% Parse(nil) calls interleaved with Parse(&blk), Write, ReadFrom and Shrink for all 7 parsers; the reference expansion receives the skipped bytes verbatim; non-trivial iff the history contains a Parse(nil) and a later block with a match; distinct = distinct concrete case",
			assumptions: []string{"matches that reference skipped bytes are counted, not required (the property grants permission only)"},
			mandatory:   []string{"parse_nil_skips", "parse_nil_empty", "parse_nil_partial_drain", "blocks_after_skip", "matches_referencing_skipped_bytes", "wrap:parse_calls_that_refilled"},
		},
		types: gen.ParserTypes, quickN: 12000, thorMul: 40, corpusN: 300, large: true,
		weights: HWeights{Write: 18, ReadFrom: 8, Parse: 22, ParseNTL: 8, ParseNil: 22, Shrink: 12, Reset: 1, ResetData: 1, WParse: 10, Faults: true},
		scale:   []string{"manyseq", "hugeshrink", "hugeblock", "nilburst", "trickle"},
		newObs: func(pc *PCase, ps *PState, c *core.Case, st *core.Stats) histObserver {
			return &c14obs{cr: commonReach{st: st}, st: st}
		},
	})
}
