package props

import (
	"bytes"
	"fmt"
	"io"
	"math/rand"
	"strings"

	"github.com/ulikunitz/lz"
	"verif/core"
	"verif/gen"
	"verif/ref"
)

// decProp is the frame of the properties decided on decoder histories.
type decProp struct {
	base
	owned  map[string]bool
	kinds  func(tier string) []core.Segment
	genC   func(r *rand.Rand, kind string, idx int64, tier string) DCase
	finish func(dc *DCase, st *core.Stats, before map[string]int64) bool
}

func (d *decProp) Plan(tier string, seed int64) []core.Segment {
	segs := d.kinds(tier)
	// two objects whose histories are interleaved operation by operation
	// (small geometries, and a few big ones)
	m := tierScale(tier, 30)
	segs = append(segs, core.Segment{Kind: "duo:buffer", N: 1500 * m}, core.Segment{Kind: "duo:decoder", N: 1000 * m},
		core.Segment{Kind: "bigduo:buffer", N: 30 * m, Chunk: 3}, core.Segment{Kind: "bigduo:decoder", N: 20 * m, Chunk: 3})
	return segs
}

// DuoDCase: two decoder histories on two objects, interleaved as Sched says.
type DuoDCase struct {
	Sub   [2]DCase `json:"sub"`
	Sched []byte   `json:"sched"`
}

// CaseCPU bounds the CPU time of one decoder history.
func (d *decProp) CaseCPU(tier string) int { return 120 }

// KindCPU: histories on small geometries take microseconds (the most
// expensive one measured on the unchanged tree: 8 ms), only the big geometries
// move megabytes.
func (d *decProp) KindCPU(kind, tier string) int { return decKindCPU(kind) }

func decKindCPU(kind string) int {
	if len(kind) >= 3 && kind[:3] == "big" {
		return 120
	}
	switch class, _ := splitKind(kind); class {
	case "tinybig", "hugetight", "longmatch", "manyseq", "giant":
		return 120
	}
	return 20
}

func (d *decProp) Gen(kind string, idx int64, seed int64, tier string) core.Case {
	s := seed
	if len(kind) > 7 && kind[:7] == "corpus:" {
		s = 0
	}
	r := core.Rand(s, d.id, kind, idx)
	if class, _ := splitKind(kind); class == "giant" {
		return core.MkCase(d.id, kind, idx, seed, tier, DCase{WS: 1 << 20, BS: 2 << 20, SUT: "decoder"})
	}
	if class, sut := splitKind(kind); class == "duo" || class == "bigduo" {
		var duo DuoDCase
		for g := 0; g < 2; g++ {
			k := sut
			if class == "bigduo" {
				k = "big:" + sut
			}
			dc := d.genC(r, k, idx+int64(g)*7, tier)
			dc.Rich = dc.SUT == "decoder" && (idx+int64(g))%3 == 1
			if g == 1 && r.Intn(2) == 0 {
				// same geometry as the first object, or a smaller buffer
				dc.WS, dc.BS = duo.Sub[0].WS, duo.Sub[0].BS
				if r.Intn(2) == 0 && dc.BS > dc.WS+2 && dc.WS > 0 {
					dc.BS = dc.WS + 1 + r.Intn(dc.BS-dc.WS-1)
				}
			}
			// rejected re-initialisations in between: they must leave the
			// object as it was
			for j, n := 0, r.Intn(3); j < n && len(dc.Ops) > 1; j++ {
				at := 1 + r.Intn(len(dc.Ops)-1)
				bad := DOp{K: "badinit", Re: true, W2: 5 + r.Intn(20), B2: 1 + r.Intn(5)}
				dc.Ops = append(dc.Ops[:at], append([]DOp{bad}, dc.Ops[at:]...)...)
			}
			duo.Sub[g] = dc
		}
		duo.Sched = make([]byte, 32)
		r.Read(duo.Sched)
		return core.MkCase(d.id, kind, idx, seed, tier, duo)
	}
	dc := d.genC(r, kind, idx, tier)
	dc.Rich = dc.SUT == "decoder" && idx%3 == 1
	return core.MkCase(d.id, kind, idx, seed, tier, dc)
}

func owned(ids ...string) map[string]bool {
	m := map[string]bool{}
	for _, s := range ids {
		m[s] = true
	}
	return m
}

func snapshot(st *core.Stats, names ...string) map[string]int64 {
	m := map[string]int64{}
	for _, n := range names {
		m[n] = st.Counters[n]
	}
	return m
}

func (d *decProp) Run(c *core.Case, st *core.Stats) []core.Violation {
	if class, _ := splitKind(c.Kind); class == "giant" {
		return runGiant(c, st)
	}
	if class, _ := splitKind(c.Kind); class == "duo" || class == "bigduo" {
		duo, err := decode[DuoDCase](c)
		if err != nil {
			return []core.Violation{core.V(c, "harness", "bad case: %v", err)}
		}
		f, g := RunDecoderDuo([2]*DCase{&duo.Sub[0], &duo.Sub[1]}, duo.Sched, st, d.owned)
		if f != nil {
			dc := &duo.Sub[g]
			return []core.Violation{core.V(c, f.Class, "%s W=%d B=%d, object %d of two whose histories are interleaved (the other: W=%d B=%d), op %d (%s): %s", dc.SUT, dc.WS, dc.BS, g, duo.Sub[1-g].WS, duo.Sub[1-g].BS, f.At, opName(dc, f.At), f.Msg)}
		}
		st.Inc("interleaved_history_pairs")
		st.NonTrivial(c)
		return nil
	}
	dc, err := decode[DCase](c)
	if err != nil {
		return []core.Violation{core.V(c, "harness", "bad case: %v", err)}
	}
	before := map[string]int64{}
	for k, v := range st.Counters {
		before[k] = v
	}
	f := RunDecoderHistory(dc, st, d.owned)
	if f != nil {
		return []core.Violation{core.V(c, f.Class, "%s W=%d B=%d op %d (%s): %s", dc.SUT, dc.WS, dc.BS, f.At, opName(dc, f.At), f.Msg)}
	}
	if d.finish == nil || d.finish(dc, st, before) {
		st.NonTrivial(c)
		st.Sample(c, 2)
	}
	return nil
}

func opName(dc *DCase, i int) string {
	if i >= 0 && i < len(dc.Ops) {
		return dc.Ops[i].K
	}
	return "?"
}

func grew(st *core.Stats, before map[string]int64, name string) bool {
	return st.Counters[name] > before[name]
}

// geometry enumerates all (W, B) with 1 <= W < B <= 40 by index and adds a
// few larger ones.
func geometry(r *rand.Rand, idx int64) (w, b int) {
	const n = 780 // pairs with 1 <= W < B <= 40
	k := int(idx % (n + 40))
	if k >= n {
		w = 1 + r.Intn(300)
		b = w + 1 + r.Intn(2*w+2)
		return
	}
	for b = 2; b <= 40; b++ {
		if k < b-1 {
			return k + 1, b
		}
		k -= b - 1
	}
	return 1, 2
}

// bigGeometry returns buffer geometries beyond the small range: tight ones
// with power-of-two capacities, default-like 2:1 ones and very large ones.
func bigGeometry(r *rand.Rand, idx int64) (w, b int) {
	g := [][2]int{{8190, 8192}, {65528, 65536}, {4096, 8192}, {65536, 131072}, {16384, 131072},
		{100, 70000}, {4095, 4096}, {32768, 65536}, {1000, 40000}, {1 << 20, 4 << 20}, {65536, 8 << 20}, {0, 0}}
	k := int(idx % int64(len(g)+2))
	if k >= len(g) {
		w = 1000 + r.Intn(100000)
		b = w + 1 + r.Intn(2*w)
		return
	}
	return g[k][0], g[k][1]
}

// effGeometry completes a decoder configuration with the documented defaults
// (the generator needs sizes to aim at).
func effGeometry(w, b int) (int, int) {
	if w == 0 {
		w = 8 << 20
	}
	if b == 0 {
		b = 2 * w
	}
	return w, b
}

func clampSeqs(ops []DOp, max int) {
	if max < 1 {
		max = 1
	}
	for i := range ops {
		for j := range ops[i].Seqs {
			s := &ops[i].Seqs[j]
			if ops[i].Hostile {
				continue
			}
			if int(s.L)+int(s.M) > max {
				// keep the literal count consistent with Data: only the
				// match is shortened
				if int(s.L) >= max {
					s.M = 0
				} else {
					s.M = uint32(max - int(s.L))
				}
			}
		}
	}
}

// fitLiterals shortens sequence literal runs that exceed max, removing the
// bytes from the literal data so that the block stays consistent.
func fitLiterals(ops []DOp, max int) {
	if max < 1 {
		max = 1
	}
	for i := range ops {
		op := &ops[i]
		if op.K != "block" || op.Hostile {
			continue
		}
		var out []byte
		pos := 0
		for j := range op.Seqs {
			s := &op.Seqs[j]
			l := int(s.L)
			if pos+l > len(op.Data) {
				l = len(op.Data) - pos
			}
			keep := l
			if keep > max {
				keep = max
			}
			out = append(out, op.Data[pos:pos+keep]...)
			pos += l
			s.L = uint32(keep)
			if keep+int(s.M) > max {
				s.M = uint32(max - keep)
			}
		}
		out = append(out, op.Data[pos:]...)
		op.Data = out
	}
}

func init() {
	// ------------------------------------------------------------ C04
	core.Register(&decProp{
		base: base{id: "C04", level: "exploration",
			rule:        "seeded random interleavings of WriteByte/Write/WriteMatch/WriteBlock(valid, offsets resolved against the model incl. the maximal valid offset and overlapping copies)/Read/WriteTo/Flush/Reset/re-Init on DecoderBuffer (public fields inspected after every step) and Decoder (recording writer), for all (WindowSize, BufferSize) with 1 <= W < B <= 40 plus larger ones; non-trivial iff the history wrote a match and handed out bytes; distinct = distinct concrete case",
			assumptions: []string{"when DecoderBuffer may answer ErrFullBuffer is not asserted (capacity is soft), only that a refused operation changed nothing; acceptance duties belong to C07"},
			mandatory:   []string{"matches_written", "overlapping_matches", "offset==WindowSize", "bytes_read", "valid_blocks_with_sequences", "steps_with_shrink", "resets", "reinits", "flushes_verified", "writeto_with_failing_writer", "calls_with_writer_fault"},
			expected:    []string{"reinit_raised_buffersize", "buffer_refused_full"}},
		owned: owned("read-bytes", "append-wrong", "window-lost", "struct-invariant", "valid-offset-rejected", "unexpected-error", "flush-incomplete", "writer-prefix", "panic", "oversized-accepted", "stale-writer-error", "spin"),
		kinds: func(tier string) []core.Segment {
			m := tierScale(tier, 60)
			return []core.Segment{{Kind: "corpus:buffer", N: 1640}, {Kind: "buffer", N: 12000 * m}, {Kind: "corpus:decoder", N: 820}, {Kind: "decoder", N: 8000 * m},
				{Kind: "big:buffer", N: 42 * m, Chunk: 3}, {Kind: "big:decoder", N: 42 * m, Chunk: 3}, {Kind: "faulty:decoder", N: 5000 * m},
				{Kind: "runs:buffer", N: 2000 * m}, {Kind: "runs:decoder", N: 1500 * m},
				{Kind: "bigtight:buffer", N: 30 * m, Chunk: 3}, {Kind: "bigtight:decoder", N: 60 * m, Chunk: 3},
				{Kind: "manyseq:buffer", N: 300 * m, Chunk: 30}, {Kind: "manyseq:decoder", N: 300 * m, Chunk: 30},
				{Kind: "tinybig:decoder", N: 4 * tierScale(tier, 4), Chunk: 1},
				{Kind: "hugetight:buffer", N: 2 * tierScale(tier, 4), Chunk: 1}, {Kind: "hugetight:decoder", N: 3 * tierScale(tier, 4), Chunk: 1},
				{Kind: "longmatch:buffer", N: 6 * tierScale(tier, 4), Chunk: 2}, {Kind: "longmatch:decoder", N: 6 * tierScale(tier, 4), Chunk: 2}}
		},
		genC: func(r *rand.Rand, kind string, idx int64, tier string) DCase {
			class, sut := splitKind(kind)
			if class == "big" {
				return bigDCase(r, sut, idx, 0)
			}
			if class == "runs" {
				return runsDCase(r, sut)
			}
			if class == "bigtight" {
				return tightDCase(r, sut)
			}
			if dc, ok := scaleDCase(r, class, sut, idx, 0); ok {
				return dc
			}
			w, b := geometry(r, idx)
			g := &DGen{SUT: sut, W: w, B: b, N: 40 + r.Intn(40), MaxItem: 2 + r.Intn(2*b), BigItems: r.Intn(3) == 0}
			ops := GenDOps(r, g)
			if sut == "decoder" {
				fitLiterals(ops, b-w)
			}
			if class == "faulty" {
				// the writer fails or writes short at some of its calls; the
				// caller retries as the API prescribes: still every byte once
				dc := DCase{WS: w, BS: b, SUT: sut, Ops: ops, Fault: map[int]WStep{}}
				for i, nf := 0, 1+r.Intn(6); i < nf; i++ {
					dc.Fault[r.Intn(60)] = genWStep(r)
				}
				return dc
			}
			return DCase{WS: w, BS: b, SUT: sut, Ops: ops}
		},
		finish: func(dc *DCase, st *core.Stats, before map[string]int64) bool {
			return grew(st, before, "matches_written") && (grew(st, before, "bytes_read") || grew(st, before, "flushes_verified")) ||
				(dc.SUT == "decoder" && grew(st, before, "valid_blocks_with_sequences"))
		},
	})

	// ------------------------------------------------------------ C05
	core.Register(&decProp{
		base: base{id: "C05", level: "exploration",
			rule:        "decoder histories in which about half of the WriteBlock/WriteMatch operations carry attacker-chosen values (Offset in {0, window, window+1, window+LitLen.., 2^32-1}, LitLen in {remaining, remaining+1, 2^32-1}, MatchLen in {0,1,2^31,2^32-1}, random uint32) at a random index of an otherwise valid block, in buffer states produced by random valid prefixes; the first malformed index is computed by the model; atomicity is decided through the reported (k,l); the caller's slices are compared with deep copies; non-trivial iff a hostile operation was rejected; distinct = distinct concrete case",
			assumptions: []string{"BufferSize is kept small so that a huge MatchLen can never be legitimately accepted", "Decoder internals are observed through Flush output only"},
			mandatory:   []string{"hostile_blocks", "hostile_rejected", "hostile_rejected_after_partial_progress", "hostile_matches", "valid_blocks_with_sequences", "hostile_blocks_with_wrapping_sums"}},
		owned: owned("malformed-accepted", "not-atomic", "caller-modified", "panic", "flush-incomplete", "writer-prefix", "struct-invariant", "oversized-accepted"),
		kinds: func(tier string) []core.Segment {
			m := tierScale(tier, 60)
			return []core.Segment{{Kind: "corpus:buffer", N: 1640}, {Kind: "buffer", N: 16000 * m}, {Kind: "corpus:decoder", N: 820}, {Kind: "decoder", N: 8000 * m},
				{Kind: "wrap:buffer", N: 300 * m}, {Kind: "wrap:decoder", N: 200 * m},
				{Kind: "manyseq:buffer", N: 300 * m, Chunk: 30}, {Kind: "manyseq:decoder", N: 300 * m, Chunk: 30},
				{Kind: "longmatch:buffer", N: 12 * tierScale(tier, 4), Chunk: 2}, {Kind: "longmatch:decoder", N: 12 * tierScale(tier, 4), Chunk: 2}}
		},
		genC: func(r *rand.Rand, kind string, idx int64, tier string) DCase {
			class, sut := splitKind(kind)
			if class == "wrap" {
				return wrapDCase(r, sut, idx)
			}
			if dc, ok := scaleDCase(r, class, sut, idx, 60); ok {
				return dc
			}
			w, b := geometry(r, idx)
			g := &DGen{SUT: sut, W: w, B: b, N: 25 + r.Intn(30), MaxItem: 2 + r.Intn(b), Hostile: 50}
			ops := GenDOps(r, g)
			if sut == "decoder" {
				fitLiterals(ops, b-w)
			}
			return DCase{WS: w, BS: b, SUT: sut, Ops: ops}
		},
		finish: func(dc *DCase, st *core.Stats, before map[string]int64) bool {
			return grew(st, before, "hostile_rejected")
		},
	})

	// ------------------------------------------------------------ C17
	core.Register(&decProp{
		base: base{id: "C17", level: "exploration",
			rule:        "decoder histories weighted towards a full buffer with already-read bytes so that a WriteBlock/Write/WriteMatch call both discards old data and appends; the reported n, k, l and DecoderBuffer.Off are compared with the model after every step, also for calls that stop early with an error after partial progress; non-trivial iff a block call discarded and appended or stopped early after progress; distinct = distinct concrete case",
			assumptions: []string{"the model appends what the reported (k,l) denote; n and Off are compared with it"},
			mandatory:   []string{"block_calls_that_discarded_and_appended", "block_stopped_early_after_progress", "valid_blocks_with_sequences", "steps_with_shrink", "counts_verified_after_writer_fault", "blocks_decoding_to_more_than_4GiB"}},
		owned: owned("count-n", "count-k-l", "off", "oversized-accepted"),
		kinds: func(tier string) []core.Segment {
			m := tierScale(tier, 60)
			return []core.Segment{{Kind: "corpus:buffer", N: 1640}, {Kind: "buffer", N: 14000 * m}, {Kind: "corpus:decoder", N: 820}, {Kind: "decoder", N: 6000 * m},
				{Kind: "big:buffer", N: 42 * m, Chunk: 3}, {Kind: "big:decoder", N: 28 * m, Chunk: 3},
				{Kind: "faulty:decoder", N: 8000 * m}, {Kind: "bigfaulty:decoder", N: 28 * m, Chunk: 3},
				{Kind: "manyseq:buffer", N: 300 * m, Chunk: 30}, {Kind: "manyseq:decoder", N: 300 * m, Chunk: 30},
				{Kind: "hugetight:buffer", N: 2 * tierScale(tier, 4), Chunk: 1}, {Kind: "hugetight:decoder", N: 2 * tierScale(tier, 4), Chunk: 1},
				{Kind: "longmatch:buffer", N: 10 * tierScale(tier, 4), Chunk: 2}, {Kind: "longmatch:decoder", N: 6 * tierScale(tier, 4), Chunk: 2},
				// one WriteBlock call that decodes to more than 4 GiB (counting writer)
				{Kind: "giant:decoder", N: 2, Chunk: 1}}
		},
		genC: func(r *rand.Rand, kind string, idx int64, tier string) DCase {
			class, sut := splitKind(kind)
			if class == "big" {
				return bigDCase(r, sut, idx, 0)
			}
			if dc, ok := scaleDCase(r, class, sut, idx, 5); ok {
				return dc
			}
			if class == "bigfaulty" {
				dc := bigDCase(r, sut, idx, 0)
				dc.Fault = map[int]WStep{}
				for i, nf := 0, 1+r.Intn(6); i < nf; i++ {
					dc.Fault[r.Intn(30)] = genWStep(r)
				}
				return dc
			}
			w, b := geometry(r, idx)
			if class == "faulty" && b > 24 {
				// small buffers: the writer is called often
				b = 2 + r.Intn(23)
				w = 1 + r.Intn(b-1)
			}
			g := &DGen{SUT: sut, W: w, B: b, N: 30 + r.Intn(40), MaxItem: 2 + r.Intn(b), NoReset: r.Intn(3) > 0, BigItems: r.Intn(3) == 0, Hostile: 8}
			if class == "faulty" {
				g.N = 10 + r.Intn(30)
				g.BigItems = r.Intn(2) == 0
			}
			ops := GenDOps(r, g)
			if class == "faulty" {
				fitLiterals(ops, b-w)
				dc := DCase{WS: w, BS: b, SUT: sut, Ops: ops, Fault: map[int]WStep{}}
				for i, nf := 0, 1+r.Intn(8); i < nf; i++ {
					dc.Fault[r.Intn(80)] = genWStep(r)
				}
				return dc
			}
			if sut == "buffer" {
				// fill up and read before block operations
				var out []DOp
				for _, op := range ops {
					if op.K == "block" && r.Intn(2) == 0 {
						out = append(out, DOp{K: "write", Data: genLits(r, r.Intn(b+1))}, DOp{K: "read", N: r.Intn(b + 1)})
					}
					out = append(out, op)
				}
				ops = out
			} else {
				fitLiterals(ops, b-w)
			}
			return DCase{WS: w, BS: b, SUT: sut, Ops: ops}
		},
		finish: func(dc *DCase, st *core.Stats, before map[string]int64) bool {
			return grew(st, before, "block_calls_that_discarded_and_appended") || grew(st, before, "block_stopped_early_after_progress") ||
				(dc.SUT == "decoder" && grew(st, before, "valid_blocks_with_sequences"))
		},
	})

	// ------------------------------------------------------------ C06
	core.Register(&decProp{
		base: base{id: "C06", level: "exploration",
			rule:        "bounded-progress restatement of termination: every Decoder call runs under a writer that counts drains inside the call (>= 64 consecutive empty drains or > 64+8*argument bytes drains = non-termination, detected logically, independent of load); argument sizes are drawn <, =, > BufferSize-WindowSize and > BufferSize, configurations are drawn incl. B < 2W, B = W+1 and W >= B (run only if the library accepts them), writers succeed, fail once or fail always; DecoderBuffer calls and loops that do not reach the writer are covered by the per-case CPU watchdog of the worker; non-trivial iff a call received an argument larger than BufferSize-WindowSize; distinct = distinct concrete case",
			assumptions: []string{"the destination writer returns and obeys the io.Writer contract (short write implies error)", "a call is allowed to return an error (acceptance is C07's business)"},
			mandatory:   []string{"decoder_writes_larger_than_free_space", "histories", "calls_with_writer_fault"},
			expected:    []string{"config_rejected"}},
		owned: owned("spin"),
		kinds: func(tier string) []core.Segment {
			m := tierScale(tier, 50)
			return []core.Segment{{Kind: "corpus:decoder", N: 1000}, {Kind: "decoder", N: 16000 * m}, {Kind: "faulty:decoder", N: 6000 * m}, {Kind: "buffer", N: 6000 * m},
				{Kind: "big:decoder", N: 84 * m, Chunk: 3},
				{Kind: "tinybig:decoder", N: 4 * tierScale(tier, 4), Chunk: 1}, {Kind: "hugetight:decoder", N: 3 * tierScale(tier, 4), Chunk: 1},
				{Kind: "manyseq:decoder", N: 200 * m, Chunk: 30}}
		},
		genC: func(r *rand.Rand, kind string, idx int64, tier string) DCase {
			class, sut := splitKind(kind)
			if class == "big" {
				return bigDCase(r, sut, idx, 10)
			}
			if dc, ok := scaleDCase(r, class, sut, idx, 10); ok {
				return dc
			}
			b := 1 + r.Intn(40)
			if r.Intn(8) == 0 {
				b = 1 + r.Intn(400)
			}
			var w int
			switch r.Intn(8) {
			case 0:
				w = b - 1
			case 1:
				w = b / 2
			case 2:
				w = b/2 + 1
			case 3:
				w = b // only valid if the library accepts it
			case 4:
				w = b + 1 + r.Intn(3)
			default:
				w = r.Intn(b + 1)
			}
			if w < 1 {
				w = 1
			}
			g := &DGen{SUT: sut, W: w, B: b, N: 12 + r.Intn(20), MaxItem: 2 + r.Intn(2*b+2), BigItems: true, Hostile: 15, NoReset: true}
			ops := GenDOps(r, g)
			dc := DCase{WS: w, BS: b, SUT: sut, Ops: ops}
			if class == "faulty" {
				dc.Fault = map[int]WStep{}
				start := r.Intn(6)
				n := 1
				if r.Intn(2) == 0 {
					n = 400 // fails always
				}
				// a writer that fails always is sticky in half of the cases:
				// the same error, nothing accepted (bufio.Writer after its
				// device failed)
				sticky, ws := n > 1 && r.Intn(2) == 0, genWStep(r)
				ws.Acc = 0
				for i := 0; i < n; i++ {
					if sticky {
						dc.Fault[start+i] = ws
					} else {
						dc.Fault[start+i] = genWStep(r)
					}
				}
			}
			return dc
		},
		finish: func(dc *DCase, st *core.Stats, before map[string]int64) bool {
			return grew(st, before, "decoder_writes_larger_than_free_space") || grew(st, before, "valid_blocks")
		},
	})
}

// wrapDCase builds hostile blocks whose 32-bit sums wrap around: many
// sequences with large LitLen (far beyond the literals the block carries)
// whose total is congruent to a small number modulo 2^32, on geometries
// whose BufferSize-WindowSize is large enough that the single values pass
// every size check. Nothing of such a block may be accepted, so the huge
// buffers are never allocated.
func wrapDCase(r *rand.Rand, sut string, idx int64) DCase {
	geo := [][2]int{{1, 1<<32 - 1}, {0, 0}, {1 << 20, 1 << 31}, {8 << 20, 1 << 30}, {1, 1<<31 + 2}, {1000, 1<<32 - 1}, {0, 1<<32 - 1}}
	g := geo[int(idx)%len(geo)]
	w, b := g[0], g[1]
	ew, eb := effGeometry(w, b)
	free := int64(eb - ew)
	var ops []DOp
	// a short valid prefix
	for i, n := 0, r.Intn(4); i < n; i++ {
		ops = append(ops, DOp{K: "write", Data: genLits(r, 1+r.Intn(20))})
	}
	for rep, nrep := 0, 1+r.Intn(3); rep < nrep; rep++ {
		lits := genLits(r, r.Intn(40))
		op := DOp{K: "block", Data: lits, Hostile: true}
		// valid small sequences first (partial progress before the rejection)
		rem := len(lits)
		for i, n := 0, r.Intn(3); i < n; i++ {
			l := r.Intn(rem + 1)
			if l > 4 {
				l = 4
			}
			rem -= l
			op.Seqs = append(op.Seqs, DSeq{L: uint32(l), M: uint32(r.Intn(6)), OK: 1})
		}
		// k large values with sum = t (mod 2^32), t <= remaining literals
		k := 2 << r.Intn(12) // 2 .. 4096
		each := (int64(1) << 32) / int64(k)
		for each > free && k < 1<<20 {
			k <<= 1
			each >>= 1
		}
		if k > 8192 {
			k, each = 8192, (int64(1)<<32)/8192
		}
		t := int64(r.Intn(rem + 1))
		for i := 0; i < k; i++ {
			v := each
			if i == k-1 {
				v = (int64(1)<<32 + t - each*int64(k-1)) % (int64(1) << 32)
			}
			q := DSeq{L: uint32(v), M: uint32(r.Intn(3)), OK: 1}
			if r.Intn(4) == 0 {
				q.M = 0
			}
			op.Seqs = append(op.Seqs, q)
		}
		ops = append(ops, op)
		ops = append(ops, DOp{K: "write", Data: genLits(r, 1+r.Intn(8))})
	}
	if sut == "decoder" {
		ops = append(ops, DOp{K: "flush"})
	}
	return DCase{WS: w, BS: b, SUT: sut, Ops: ops}
}

// tightDCase: windows of 4-70 kB with buffers smaller than twice the window
// (BufferSize-WindowSize from 1 byte to WindowSize-1), writes of every size
// up to the window - in particular larger than BufferSize-WindowSize but
// smaller than the window - each followed by matches at the far end of the
// window: everything of the last WindowSize bytes must stay addressable
// whatever route the data took into the buffer.
func tightDCase(r *rand.Rand, sut string) DCase {
	w := []int{4097, 5000, 8190, 12000, 20000, 65528, 70000}[r.Intn(7)]
	b := w + 1 + r.Intn(w-1)
	switch r.Intn(4) {
	case 0:
		b = w + 1 + r.Intn(64)
	case 1:
		b = w + w/8 + r.Intn(w/2)
	}
	free := b - w
	var ops []DOp
	ops = append(ops, DOp{K: "write", Data: genLits(r, 1+r.Intn(w))})
	for len(ops) < 24 {
		n := 1 + r.Intn(w)
		switch r.Intn(5) {
		case 0:
			n = free + 1 + r.Intn(w-free)
		case 1:
			n = 4096 + r.Intn(w-4095)
		case 2:
			n = 1 + r.Intn(free)
		}
		if r.Intn(3) == 0 {
			// the literals travel as trailing literals of a block
			ops = append(ops, DOp{K: "block", Data: genLits(r, n)})
		} else {
			ops = append(ops, DOp{K: "write", Data: genLits(r, n)})
		}
		m := 1 + r.Intn(300)
		if m > free {
			m = free
		}
		seq := DSeq{M: uint32(m), OK: []int{2, 2, 3, 4}[r.Intn(4)], O: uint32(r.Intn(1 << 20))}
		if sut == "buffer" {
			ops = append(ops, DOp{K: "read", N: r.Intn(b + 1)}, DOp{K: "match", Seqs: []DSeq{seq}})
		} else {
			ops = append(ops, DOp{K: "block", Seqs: []DSeq{seq}})
			if r.Intn(4) == 0 {
				ops = append(ops, DOp{K: "flush"})
			}
		}
	}
	if sut == "decoder" {
		ops = append(ops, DOp{K: "flush"})
	}
	return DCase{WS: w, BS: b, SUT: sut, Ops: ops}
}

// runsDCase: runs of one byte (0x00 - the value of fresh memory -, 0xff, a
// letter) written as matches with offset 1 and lengths of 64 bytes up to
// BufferSize-WindowSize, separated by literals of other values, on buffers of
// a few hundred bytes that wrap many times: the area a run is expanded into
// has held other bytes before.
func runsDCase(r *rand.Rand, sut string) DCase {
	w := 8 + r.Intn(300)
	b := w + 64 + r.Intn(600)
	free := b - w
	var ops []DOp
	for len(ops) < 50 {
		c := []byte{0x00, 0x00, 0xff, 'a', byte(r.Intn(256))}[r.Intn(5)]
		lit := make([]byte, 1+r.Intn(40))
		for i := range lit {
			lit[i] = byte(1 + r.Intn(255))
		}
		lit[len(lit)-1] = c
		m := 64 + r.Intn(free-63)
		if r.Intn(3) == 0 {
			// literals and run in one block
			if len(lit)+m > free {
				m = free - len(lit)
			}
			ops = append(ops, DOp{K: "block", Data: lit, Seqs: []DSeq{{L: uint32(len(lit)), M: uint32(m), OK: 1}}})
		} else {
			ops = append(ops, DOp{K: "write", Data: lit})
			if sut == "buffer" {
				ops = append(ops, DOp{K: "match", Seqs: []DSeq{{M: uint32(m), OK: 1}}})
			} else {
				ops = append(ops, DOp{K: "block", Seqs: []DSeq{{M: uint32(m), OK: 1}}})
			}
		}
		if sut == "buffer" {
			ops = append(ops, DOp{K: "read", N: r.Intn(b + 1)})
			if r.Intn(4) == 0 {
				ops = append(ops, DOp{K: "writeto"})
			}
		} else if r.Intn(4) == 0 {
			ops = append(ops, DOp{K: "flush"})
		}
		if r.Intn(12) == 0 {
			ops = append(ops, DOp{K: "reset"})
		}
	}
	if sut == "decoder" {
		ops = append(ops, DOp{K: "flush"})
	}
	return DCase{WS: w, BS: b, SUT: sut, Ops: ops}
}

// genWStep draws a fault step: bytes accepted and the error value (the
// harness' own error, io.ErrShortWrite as bufio.Writer reports it, other
// standard errors).
func genWStep(r *rand.Rand) WStep {
	return WStep{Acc: r.Intn(5), Fail: true, E: []int{0, 0, 0, 4, 1, 1, 1, 2, 3, 4, 5, 0}[r.Intn(12)]}
}

// bigDCase generates a short history on a big geometry: items sized around
// WindowSize, BufferSize-WindowSize and BufferSize, long overlapping matches
// with small odd offsets, flushes with megabytes pending.
func bigDCase(r *rand.Rand, sut string, idx int64, hostile int) DCase {
	w, b := bigGeometry(r, idx)
	ew, eb := effGeometry(w, b)
	g := &DGen{SUT: sut, W: ew, B: eb, N: 8 + r.Intn(10), MaxItem: 2 + r.Intn(2*(eb-ew)), BigItems: true, Hostile: hostile, NoReset: r.Intn(2) == 0}
	if eb > 1<<21 {
		// keep the amount of data per case bounded
		g.N = 5 + r.Intn(5)
		g.MaxItem = 1 << 20
		g.BigItems = r.Intn(2) == 0
		if !g.BigItems {
			g.MaxItem = 3 << 19
		}
	}
	ops := GenDOps(r, g)
	if sut == "decoder" {
		fitLiterals(ops, eb-ew)
	}
	return DCase{WS: w, BS: b, SUT: sut, Ops: ops}
}

// ---------------------------------------------------------------- C18

// C18Case is a fault-free valid stream; Run enumerates the fault placements.
type c18prop struct{ base }

func (p *c18prop) CaseCPU(tier string) int { return 120 }

// KindCPU: the enumerations on small geometries stay far below a second.
func (p *c18prop) KindCPU(kind, tier string) int {
	if kind == "big" || c18scaleKind(kind) {
		return 120
	}
	return 30
}

func (p *c18prop) Plan(tier string, seed int64) []core.Segment {
	m := tierScale(tier, 30)
	return []core.Segment{{Kind: "corpus:enum", N: 200}, {Kind: "enum", N: 1800 * m}, {Kind: "random", N: 3000 * m}, {Kind: "big", N: 60 * m, Chunk: 4},
		// a writer that fails at most of its calls, hundreds of times in the
		// life of one decoder
		{Kind: "flaky", N: 300 * m, Chunk: 30},
		// streams whose point is a size or a count (dscale.go) under sampled
		// and periodic fault plans
		{Kind: "manyseq", N: 60 * m, Chunk: 10}, {Kind: "tinybig", N: 2 * tierScale(tier, 4), Chunk: 1},
		{Kind: "hugetight", N: 2 * tierScale(tier, 3), Chunk: 1}, {Kind: "longmatch", N: 4 * tierScale(tier, 3), Chunk: 2}}
}

func c18scaleKind(k string) bool {
	return k == "manyseq" || k == "tinybig" || k == "hugetight" || k == "longmatch"
}

func (p *c18prop) Gen(kind string, idx int64, seed int64, tier string) core.Case {
	s := seed
	class, k := splitKind(kind)
	if class == "corpus" {
		s = 0
	}
	r := core.Rand(s, p.id, kind, idx)
	if kind == "big" {
		dc := bigDCase(r, "decoder", idx, 0)
		for i := range dc.Ops {
			if dc.Ops[i].K == "reset" || dc.Ops[i].K == "reinit" {
				dc.Ops[i] = DOp{K: "flush"}
			}
		}
		dc.Rich = idx%3 == 1
		dc.Rich = idx%3 == 1
		return core.MkCase(p.id, kind, idx, seed, tier, dc)
	}
	if c18scaleKind(kind) {
		dc, _ := scaleDCase(r, kind, "decoder", idx, 0)
		dc.Fault = nil
		dc.Rich = idx%3 == 1
		return core.MkCase(p.id, kind, idx, seed, tier, dc)
	}
	w, b := geometry(r, idx)
	if b > 24 {
		b = 2 + r.Intn(23)
		w = 1 + r.Intn(b-1)
	}
	n := 4 + r.Intn(8)
	if k == "random" {
		n = 10 + r.Intn(30)
	}
	if k == "flaky" {
		n = 250 + r.Intn(300)
	}
	g := &DGen{SUT: "decoder", W: w, B: b, N: n, MaxItem: 2 + r.Intn(b), OnlyValid: true, NoReset: r.Intn(3) > 0, BigItems: r.Intn(2) == 0}
	ops := GenDOps(r, g)
	fitLiterals(ops, b-w)
	// writes larger than a flushed buffer are allowed: Decoder.Write chunks
	dc := DCase{WS: w, BS: b, SUT: "decoder", Ops: ops}
	if k == "random" {
		dc.Fault = map[int]WStep{}
		for i, nf := 0, 1+r.Intn(5); i < nf; i++ {
			dc.Fault[r.Intn(60)] = genWStep(r)
		}
	}
	if k == "flaky" {
		// of every 2, 3 or 4 consecutive writer calls only the first works
		dc.Fault = map[int]WStep{}
		per := 2 + r.Intn(3)
		for i := 0; i < 6000; i++ {
			if i%per != 0 {
				dc.Fault[i] = genWStep(r)
			}
		}
	}
	return core.MkCase(p.id, kind, idx, seed, tier, dc)
}

var c18owned = owned("writer-prefix", "wrong-error", "flush-incomplete", "panic", "spin", "stale-writer-error")

func (p *c18prop) Run(c *core.Case, st *core.Stats) []core.Violation {
	dc, err := decode[DCase](c)
	if err != nil {
		return []core.Violation{core.V(c, "harness", "bad case: %v", err)}
	}
	_, k := splitKind(c.Kind)
	run := func(fault map[int]WStep) (*DFail, int) {
		x := *dc
		x.Fault = fault
		tmp := core.NewStats()
		f := RunDecoderHistory(&x, tmp, c18owned)
		for name, v := range tmp.Counters {
			st.Counters[name] += v
		}
		return f, 0
	}
	report := func(f *DFail, fault map[int]WStep) []core.Violation {
		return []core.Violation{core.V(c, f.Class, "decoder W=%d B=%d fault plan %v: op %d (%s): %s", dc.WS, dc.BS, fault, f.At, opName(dc, f.At), f.Msg)}
	}
	if k == "random" || k == "flaky" {
		f, _ := run(dc.Fault)
		st.Inc("fault_plans")
		if f != nil {
			if k == "flaky" {
				return []core.Violation{core.V(c, f.Class, "decoder W=%d B=%d, of every few writer calls only the first succeeds: op %d (%s): %s", dc.WS, dc.BS, f.At, opName(dc, f.At), f.Msg)}
			}
			return report(f, dc.Fault)
		}
		if k == "flaky" {
			st.Inc("flaky_writer_streams")
		}
		st.NonTrivial(c)
		return nil
	}
	// fault-free run: counts the writer calls
	n := countWriterCalls(dc)
	if k == "big" || c18scaleKind(k) {
		// big geometries: a sample of single fault placements per stream
		st.Inc("fault_free_runs")
		r := core.Rand(c.Seed, "C18", "bigfaults", c.Idx)
		tries := 12
		if c18scaleKind(k) {
			tries = 6
			st.Inc("scale_streams")
		}
		for t := 0; t < tries && n > 0; t++ {
			fault := map[int]WStep{r.Intn(n): genWStep(r)}
			if r.Intn(3) == 0 {
				fault[r.Intn(n+1)] = genWStep(r)
			}
			if c18scaleKind(k) && t%2 == 1 {
				// periodic plan: every per-th call fails, hundreds of times
				per := 2 + r.Intn(1+n/300)
				for i := r.Intn(per); i < n+n/per+8; i += per {
					fault[i] = genWStep(r)
				}
			}
			st.Inc("fault_plans")
			st.Inc("big_geometry_fault_plans")
			if f, _ := run(fault); f != nil {
				return report(f, fault)
			}
		}
		st.NonTrivial(c)
		return nil
	}
	st.Inc("fault_free_runs")
	if n == 0 {
		return nil
	}
	if n > 40 {
		n = 40
	}
	// the error value of the enumerated faults is fixed per stream
	ek := []int{0, 1, 4, 2, 1, 3, 0, 4, 5}[int(c.Idx)%9]
	for i := 0; i < n; i++ {
		for acc := 0; acc <= 4; acc++ {
			fault := map[int]WStep{i: {Acc: acc, Fail: true, E: ek}}
			st.Inc("fault_plans")
			st.Inc("single_fault_placements")
			if f, _ := run(fault); f != nil {
				return report(f, fault)
			}
		}
	}
	if n <= 14 {
		for i := 0; i < n; i++ {
			for j := i + 1; j < n+2; j++ {
				for _, acc := range [][2]int{{0, 0}, {3, 1}, {2, 4}, {1, 3}} {
					fault := map[int]WStep{i: {Acc: acc[0], Fail: true, E: ek}, j: {Acc: acc[1], Fail: true, E: (ek + 1) % 6}}
					st.Inc("fault_plans")
					st.Inc("double_fault_placements")
					if f, _ := run(fault); f != nil {
						return report(f, fault)
					}
				}
			}
		}
	}
	st.NonTrivial(c)
	st.Sample(c, 2)
	return nil
}

// countWriterCalls runs the stream without faults and returns the number of
// writer calls.
func countWriterCalls(dc *DCase) int {
	x := *dc
	x.Fault = nil
	r := &DRun{dc: &x, st: core.NewStats(), owned: map[string]bool{}}
	r.w = &planWriter{}
	d, err := lz.NewDecoder(x.writerFor(r.w), cfgOf(&x))
	if err != nil {
		return 0
	}
	r.dec = d
	c := cfgOf(&x)
	c.SetDefaults()
	r.W, r.B = c.WindowSize, c.BufferSize
	for i := range x.Ops {
		r.stepDecoder(i, &x.Ops[i])
		if r.fail != nil {
			break
		}
	}
	return r.w.calls
}

func init() {
	core.Register(&c18prop{base{id: "C18", level: "fault_enumeration",
		rule:        "for every generated valid block stream (Decoder, small geometries, items that fit a flushed buffer) the fault-free run counts the writer calls N; then ALL single fault placements (call index i < min(N,40) x accepted in {0, 1, len/2, len-1, len}) and, for N <= 14, all double placements (i < j) x 4 acceptance pairs are executed, each with the retry protocol (retry Sequences[k:], Literals[l:] resp. p[n:] until success) followed by Flush; plus seeded random multi-fault plans; after every call the accepted bytes must be a prefix of the reference expansion, the error must be the injected one, and after the final Flush the writer holds the expansion exactly once; non-trivial iff the stream caused at least one writer call; distinct = distinct stream",
		assumptions: []string{"the writer obeys the io.Writer contract (accepting fewer bytes implies a non-nil error)", "streams contain only items that fit a flushed buffer; other refusals are C07's business"},
		mandatory:   []string{"single_fault_placements", "double_fault_placements", "calls_with_writer_fault", "retries", "flushes_verified", "histories_with_flushable_writer", "flaky_writer_streams", "scale_streams"}}})
}

// ---------------------------------------------------------------- C07

// C07Case pairs a parser configuration and an input with decoder buffer sizes.
type C07Case struct {
	Cfg    gen.Cfg `json:"cfg"`
	Stream []byte  `json:"stream"`
	Chunk  int     `json:"chunk"`
	Flags  []int   `json:"flags"`
	// synthetic stream instead of a parser
	Syn *DCase `json:"syn,omitempty"`
	// Huge: decoder window (0 = default) for the huge-window stream
	Huge   int  `json:"huge,omitempty"`
	IsHuge bool `json:"ishuge,omitempty"`
}

// runGiant: one Decoder.WriteBlock call whose block decodes to more than
// 4 GiB (a literal byte, then matches of 1 MiB - 1 with offset 1; case 1: a
// few thousand sequences more and literals in between) through a Decoder
// with a 1 MiB window and a writer that only counts: the reported n, k and l
// must be the true ones and the writer must have received exactly n bytes.
func runGiant(c *core.Case, st *core.Stats) []core.Violation {
	zw := &zeroWriter{}
	d, err := lz.NewDecoder(zw, lz.DecoderConfig{WindowSize: 1 << 20, BufferSize: 2 << 20})
	if err != nil {
		st.Inc("config_rejected")
		return nil
	}
	nseq := 4100 + int(c.Idx)*700
	var blk lz.Block
	var total int64
	for i := 0; i < nseq; i++ {
		s := lz.Seq{MatchLen: 1<<20 - 1, Offset: 1}
		if i == 0 || (c.Idx > 0 && i%97 == 0) {
			s.LitLen = 1
			blk.Literals = append(blk.Literals, 0)
		}
		blk.Sequences = append(blk.Sequences, s)
		total += int64(s.LitLen) + int64(s.MatchLen)
	}
	var n, k, l int
	var werr, ferr error
	if pv := call(func() {
		n, k, l, werr = d.WriteBlock(blk)
		ferr = d.Flush()
	}); pv != nil {
		return []core.Violation{core.V(c, "panic", "Decoder.WriteBlock of a block that decodes to %d bytes: %s", total, fmtPanic(pv))}
	}
	if werr != nil || ferr != nil {
		// acceptance is C07's business
		st.Inc("giant_block_refused")
		return nil
	}
	if int64(n) != total || k != len(blk.Sequences) || l != len(blk.Literals) {
		return []core.Violation{core.V(c, "count-n", "Decoder{W=1MiB,B=2MiB}.WriteBlock of %d sequences that decode to %d bytes returned n=%d k=%d l=%d (want %d, %d, %d)", len(blk.Sequences), total, n, k, l, total, len(blk.Sequences), len(blk.Literals))}
	}
	if zw.n != total || zw.bad != 0 {
		return []core.Violation{core.V(c, "count-n", "WriteBlock reported n=%d but the writer received %d bytes (%d of them not zero)", n, zw.n, zw.bad)}
	}
	st.Inc("blocks_decoding_to_more_than_4GiB")
	st.NonTrivial(c)
	return nil
}

// zeroWriter checks that only zero bytes arrive and counts them.
type zeroWriter struct {
	n    int64
	bad  int64
	call int
}

func (z *zeroWriter) Write(p []byte) (int, error) {
	z.call++
	for _, c := range p {
		if c != 0 {
			z.bad++
		}
	}
	z.n += int64(len(p))
	return len(p), nil
}

// runHuge streams zero runs through a Decoder with a huge window and the
// default buffer: one literal, then matches of 3/4 window, of exactly the
// window size and small ones.
func runHuge(c *core.Case, w int, st *core.Stats) []core.Violation {
	zw := &zeroWriter{}
	cfg := lz.DecoderConfig{WindowSize: w}
	d, err := lz.NewDecoder(zw, cfg)
	if err != nil {
		return []core.Violation{core.V(c, "decoder-config-rejected", "NewDecoder(%+v): %v", cfg, err)}
	}
	ew := w
	if ew == 0 {
		ew = 8 << 20
	}
	var total int64
	var viol []core.Violation
	pv := call(func() {
		if err := d.WriteByte(0); err != nil {
			viol = append(viol, core.V(c, "refused-valid", "WriteByte: %v", err))
			return
		}
		total = 1
		for i, ml := range []int{ew * 3 / 4, ew, 5, ew - 1, ew/2 + 1, ew} {
			blk := lz.Block{Sequences: []lz.Seq{{LitLen: 0, MatchLen: uint32(ml), Offset: 1}}}
			if i%2 == 1 {
				blk.Sequences[0].LitLen = 1
				blk.Sequences[0].MatchLen--
				blk.Literals = []byte{0}
			}
			n, k, l, err := d.WriteBlock(blk)
			if err != nil || k != 1 || int(n) != ml || l != len(blk.Literals) {
				viol = append(viol, core.V(c, "refused-valid-matchlen", "Decoder{WindowSize:%d, default buffer}.WriteBlock of one sequence of %d bytes (<= WindowSize) returned n=%d k=%d l=%d err=%v", ew, ml, n, k, l, err))
				return
			}
			total += int64(ml)
		}
		if err := d.Flush(); err != nil {
			viol = append(viol, core.V(c, "flush-failed", "Flush: %v", err))
		}
	})
	if pv != nil {
		return []core.Violation{core.V(c, "panic", "huge window stream: %v", pv)}
	}
	if viol != nil {
		return viol
	}
	if zw.n != total || zw.bad != 0 {
		return []core.Violation{core.V(c, "output-differs", "Decoder{WindowSize:%d}: writer received %d bytes (%d non-zero), want %d zero bytes", ew, zw.n, zw.bad, total)}
	}
	st.Inc("huge_window_streams")
	st.Add("huge_window_bytes", total)
	st.NonTrivial(c)
	return nil
}

type c07prop struct{ base }

func (p *c07prop) Plan(tier string, seed int64) []core.Segment {
	m := tierScale(tier, 20)
	segs := []core.Segment{{Kind: "corpus:synthetic", N: 600}, {Kind: "synthetic", N: 9000 * m}, {Kind: "known-finding-reproducer", N: 1},
		{Kind: "huge-window", N: 4, Chunk: 1},
		// synthetic valid streams whose point is a size or a count (dscale.go)
		{Kind: "syn-tinybig", N: 4 * tierScale(tier, 4), Chunk: 1}, {Kind: "syn-hugetight", N: 3 * tierScale(tier, 4), Chunk: 1},
		{Kind: "syn-manyseq", N: 200 * m, Chunk: 20}, {Kind: "syn-longmatch", N: 6 * tierScale(tier, 4), Chunk: 2}}
	for _, t := range gen.ParserTypes {
		segs = append(segs, core.Segment{Kind: "corpus:parser:" + t, N: 100}, core.Segment{Kind: "parser:" + t, N: 1900 * m})
		if tier == "thorough" {
			segs = append(segs, core.Segment{Kind: "bigblock:" + t, N: 60, Chunk: 4})
		}
		// windows and blocks of a megabyte: single matches of hundreds of
		// kilobytes with odd offsets, blocks with more than 64 Ki sequences
		segs = append(segs, core.Segment{Kind: "longmatch:" + t, N: 4 * tierScale(tier, 4), Chunk: 1},
			core.Segment{Kind: "manyseq:" + t, N: 2 * tierScale(tier, 4), Chunk: 1})
	}
	return segs
}

func (p *c07prop) Gen(kind string, idx int64, seed int64, tier string) core.Case {
	s := seed
	if len(kind) > 7 && kind[:7] == "corpus:" {
		s = 0
		kind2 := kind[7:]
		c := p.gen(core.Rand(s, p.id, kind, idx), kind2, idx)
		return core.MkCase(p.id, kind, idx, seed, tier, c)
	}
	return core.MkCase(p.id, kind, idx, seed, tier, p.gen(core.Rand(s, p.id, kind, idx), kind, idx))
}

func (p *c07prop) gen(r *rand.Rand, kind string, idx int64) C07Case {
	switch {
	case kind == "huge-window":
		// windows of 8 MiB (the default) and beyond with the default buffer:
		// sequences up to WindowSize bytes long must be accepted
		return C07Case{IsHuge: true, Huge: []int{0, 16 << 20, 9 << 20, 8<<20 + 1}[idx%4]}
	case kind == "known-finding-reproducer":
		// the directed reproducer of the recorded finding: HP, WindowSize 16,
		// BlockSize 2048 on a run of 3000 bytes emits {1,2047,1}
		return C07Case{Cfg: gen.Cfg{Type: "HP", WindowSize: 16, BufferSize: 4096, BlockSize: 2048, InputLen: 3, HashBits: 10},
			Stream: bytes.Repeat([]byte{'a'}, 3000)}
	case strings.HasPrefix(kind, "syn-"):
		dc, _ := scaleDCase(r, kind[4:], "decoder", idx, 0)
		return C07Case{Syn: &dc}
	case kind == "synthetic":
		w, b := geometry(r, idx)
		g := &DGen{SUT: "decoder", W: w, B: b, N: 10 + r.Intn(25), MaxItem: 2 + r.Intn(3*b), BigItems: r.Intn(2) == 0, OnlyValid: true, NoReset: r.Intn(2) == 0}
		ops := GenDOps(r, g)
		if r.Intn(4) > 0 {
			// sequences that fit a flushed buffer; literal runs of any size
			fitLiterals(ops, b-w)
		}
		return C07Case{Syn: &DCase{WS: w, BS: b, SUT: "decoder", Ops: ops}}
	case strings.HasPrefix(kind, "longmatch:") || strings.HasPrefix(kind, "manyseq:"):
		class, typ := splitKind(kind)
		sa := typ == "GSAP" || typ == "OSAP"
		c := gen.Cfg{Type: typ}
		if r.Intn(2) == 0 {
			c = gen.SmallCfg(r, typ, gen.Opts{})
			if c.MinMatch() > 4 || c.InputLen > 4 || c.InputLen1 > 4 {
				c = gen.Cfg{Type: typ}
			}
		}
		c.WindowSize, c.BlockSize, c.BufferSize, c.ShrinkSize = 1<<20, 1<<20, 3<<20, 1<<16
		var stream []byte
		if class == "longmatch" {
			n := 600 << 10
			if sa {
				n = 150 << 10
			}
			periods := []int{3, 5, 7, 24, 1000, 40000, 100000, 65537, 1, 2, 4096}
			for j := 0; j < 3; j++ {
				stream = append(stream, gen.Family(r, "rand256", 100+r.Intn(1000), c.Hint())...)
				stream = append(stream, gen.PeriodicRun(r, periods[(int(idx)*3+j)%len(periods)], n+r.Intn(1000), 256)...)
			}
		} else {
			n := 2 << 20
			if sa {
				n = 600 << 10
				c.BlockSize = 600 << 10
			}
			stream = gen.Records(r, n/7, 16+r.Intn(200), 4, 3)
		}
		c.TameBig()
		return C07Case{Cfg: c, Stream: stream, Chunk: 65536 + r.Intn(100000), Flags: []int{0, 0, lz.NoTrailingLiterals}}
	default:
		class, typ := splitKind(kind)
		o := gen.Opts{}
		c := gen.SmallCfg(r, typ, o)
		n := 50 + r.Intn(900)
		if class == "bigblock" {
			c.BufferSize = 4096 + r.Intn(60000)
			c.ShrinkSize = r.Intn(c.BufferSize / 2)
			c.WindowSize = []int{16, 64, 256, 1024, 4096}[r.Intn(5)]
			c.BlockSize = c.WindowSize * (2 + r.Intn(8))
			n = 20000 + r.Intn(100000)
		} else if r.Intn(3) == 0 {
			// BlockSize larger than the window: long sequences
			c.BlockSize = c.WindowSize*2 + r.Intn(40)
		}
		c.TameBig()
		if typ == "GSAP" && c.WindowSize < c.MinMatchLen {
			c.WindowSize = c.MinMatchLen
		}
		_, stream := gen.Bytes(r, n, c.Hint())
		if class != "bigblock" && r.Intn(3) == 0 {
			// windows smaller than the buffered data and repeats placed at
			// distance WindowSize-1, WindowSize, WindowSize+1: an offset one
			// beyond the window is refused by the decoder
			w := 1 + r.Intn(12)
			if typ == "GSAP" && w < c.MinMatchLen {
				w = c.MinMatchLen
			}
			c.WindowSize = w
			stream = gen.Family(r, "lzsynth", n, c.Hint())
		}
		flags := make([]int, 8)
		for i := range flags {
			if r.Intn(4) == 0 {
				flags[i] = lz.NoTrailingLiterals
			}
		}
		return C07Case{Cfg: c, Stream: stream, Chunk: 1 + r.Intn(300), Flags: flags}
	}
}

var c07owned = owned("refused-valid", "flush-incomplete", "writer-prefix", "valid-offset-rejected", "spin", "panic", "append-wrong", "count-k-l", "stale-writer-error", "wrong-error")

func (p *c07prop) Run(c *core.Case, st *core.Stats) []core.Violation {
	cc, err := decode[C07Case](c)
	if err != nil {
		return []core.Violation{core.V(c, "harness", "bad case: %v", err)}
	}
	if cc.IsHuge {
		return runHuge(c, cc.Huge, st)
	}
	if cc.Syn != nil {
		before := snapshot(st, "valid_blocks")
		f := RunDecoderHistory(cc.Syn, st, c07owned)
		if f != nil {
			return []core.Violation{core.V(c, f.Class, "synthetic stream W=%d B=%d op %d (%s): %s", cc.Syn.WS, cc.Syn.BS, f.At, opName(cc.Syn, f.At), f.Msg)}
		}
		if grew(st, before, "valid_blocks") {
			st.NonTrivial(c)
			st.Sample(c, 1)
		}
		return nil
	}
	// parser side
	ps, nerr := NewParserFor(cc.Cfg)
	if nerr != nil {
		st.Inc("config_rejected")
		return nil
	}
	var blocks []lz.Block
	wp := lz.Wrap(&chunkReader{data: cc.Stream, chunk: cc.Chunk, eofWithData: c.Idx%3 == 0}, ps.P)
	var perr any
	if c.Idx%4 == 1 && cc.Chunk > 0 {
		// the input goes in through Write from a read buffer that the caller
		// reuses for every chunk (with a few bytes of spare capacity), as a
		// copy loop does; Parse until the buffer is drained, Shrink, go on
		st.Inc("parser_streams_fed_through_write")
		// a second parser with the same configuration works through another
		// stream (the input reversed) in between, round by round
		psB, _ := NewParserFor(cc.Cfg)
		streamB := make([]byte, len(cc.Stream))
		for j, x := range cc.Stream {
			streamB[len(streamB)-1-j] = x
		}
		var blocksB []lz.Block
		posB, iB := 0, 0
		emptyB := true
		roundB := func() {
			if psB == nil {
				return
			}
			if emptyB {
				// refill (after a Shrink) only when everything is parsed
				psB.P.Shrink()
				if posB >= len(streamB) {
					return
				}
				n := cc.Chunk
				if n > len(streamB)-posB {
					n = len(streamB) - posB
				}
				k, _ := psB.P.Write(streamB[posB : posB+n])
				if k < 0 || k > n {
					panic(fmt.Sprintf("Write returned %d for %d bytes", k, n))
				}
				posB += k
				emptyB = false
			}
			// one or two blocks per turn: data stays unparsed across the turns
			// of the other parser
			for j := 0; j < 1+iB%2; j++ {
				var blk lz.Block
				_, err := psB.P.Parse(&blk, cc.Flags[iB%len(cc.Flags)])
				iB++
				if err != nil {
					emptyB = true
					break
				}
				blocksB = append(blocksB, blk)
				if iB > 4*len(streamB)+16 {
					panic("second parser does not finish")
				}
			}
		}
		perr = call(func() {
			buf := make([]byte, cc.Chunk, cc.Chunk+8)
			pos, i := 0, 0
			for guard := 0; guard < 4*len(cc.Stream)+64; guard++ {
				for pos < len(cc.Stream) {
					n := copy(buf[:cc.Chunk], cc.Stream[pos:])
					k, werr := ps.P.Write(buf[:n])
					for j := range buf[:cap(buf)] {
						buf[:cap(buf)][j] = 0xEE
					}
					if k < 0 || k > n {
						panic(fmt.Sprintf("Write returned %d for %d bytes", k, n))
					}
					pos += k
					if werr != nil || k < n {
						break
					}
				}
				for {
					roundB()
					var blk lz.Block
					_, err := ps.P.Parse(&blk, cc.Flags[i%len(cc.Flags)])
					i++
					if err == lz.ErrEmptyBuffer {
						break
					}
					if err != nil {
						panic(fmt.Sprintf("Parse: %v", err))
					}
					blocks = append(blocks, blk)
					if i > 4*len(cc.Stream)+16 {
						panic("parser does not finish")
					}
				}
				if pos >= len(cc.Stream) {
					for g := 0; (posB < len(streamB) || !emptyB) && g < 8*len(streamB)+64; g++ {
						roundB()
					}
					return
				}
				ps.P.Shrink()
			}
			panic("parser does not finish")
		})
		if perr == nil && psB != nil && posB >= len(streamB) && emptyB {
			// the second stream through a Decoder with the same window
			st.Inc("second_parser_streams")
			w := &planWriter{}
			d, derr := lz.NewDecoder(w, lz.DecoderConfig{WindowSize: psB.WindowSize})
			if derr == nil {
				var werr error
				at := -1
				pv := call(func() {
					for bi, blk := range blocksB {
						w.begin(int(blk.Len()))
						if _, _, _, werr = d.WriteBlock(blk); werr != nil {
							at = bi
							return
						}
					}
					w.begin(0)
					werr = d.Flush()
				})
				known := werr != nil && errIs(werr, errStrMatchLen)
				if pv == nil && !known && (werr != nil || !bytes.Equal(w.accepted, streamB)) {
					return []core.Violation{core.V(c, "output-differs", "%s cfg=%+v: of two parsers with this configuration that are fed alternately (Write from a reused buffer, Parse, Shrink), the second one's blocks give %d bytes through Decoder{W=%d} (error %v at block %d), its input has %d (common prefix %d)", cc.Cfg.Type, cc.Cfg, len(w.accepted), psB.WindowSize, werr, at, len(streamB), commonPrefix(w.accepted, streamB))}
				}
			}
		}
	} else {
		perr = call(func() {
			for i := 0; ; i++ {
				var blk lz.Block
				fl := 0
				if len(cc.Flags) > 0 {
					fl = cc.Flags[i%len(cc.Flags)]
				}
				_, err := wp.Parse(&blk, fl)
				if err != nil {
					if err != io.EOF {
						panic(fmt.Sprintf("wrapped Parse: %v", err))
					}
					return
				}
				blocks = append(blocks, blk)
				if i > 4*len(cc.Stream)+16 {
					panic("wrapped parser does not finish")
				}
			}
		})
	}
	if perr != nil {
		// the parser side is decided by C01/C08/C16
		st.Inc("parser_side_failed")
		return nil
	}
	// the stream must be well-formed in the sense of C02 and expand to the
	// input, otherwise the premise of C07 does not hold
	var dec []byte
	beyond := false
	for _, blk := range blocks {
		var xerr error
		dec, xerr = ref.Expand(dec, blk.Sequences, blk.Literals)
		if xerr != nil {
			st.Inc("parser_side_failed")
			return nil
		}
		for _, s := range blk.Sequences {
			if int(s.Offset) > ps.WindowSize {
				// the parser itself left the window (C02): a decoder with
				// the same window cannot accept what this parser emits,
				// which is what C07 promises for everything the parsers of
				// the module emit - the refusal is reported below
				beyond = true
			}
		}
	}
	if !bytes.Equal(dec, cc.Stream) {
		// the blocks are a well-formed stream but not one of the input: the
		// decoder will reproduce what the blocks say, and the pipeline parser
		// -> Decoder then does not produce the original bytes, which is what
		// C07 promises for everything the parsers emit (reported below as
		// output-differs)
		st.Inc("parser_streams_that_expand_to_other_bytes")
	}
	st.Inc("parser_streams")
	st.Add("parser_blocks", int64(len(blocks)))
	W := ps.WindowSize
	var viols []core.Violation
	known := false
	for _, B := range []int{0, W + 1, W + 2, 2*W - 1, 2 * W, 3*W + 1} {
		if B != 0 && B <= W {
			continue
		}
		effB := B
		if effB == 0 {
			effB = 2 * W
		}
		var out bytes.Buffer
		w := &planWriter{}
		d, derr := lz.NewDecoder(w, lz.DecoderConfig{WindowSize: W, BufferSize: B})
		if derr != nil {
			if B != 0 {
				// "any accepted BufferSize": explicit sizes the library
				// rejects (beyond MaxUint32) are outside the quantifier
				st.Inc("explicit_buffersize_not_accepted")
				continue
			}
			viols = append(viols, core.V(c, "decoder-config-rejected", "NewDecoder(W=%d,B=%d): %v", W, B, derr))
			break
		}
		_ = out
		st.Inc("pairings")
		ok := true
		for bi, blk := range blocks {
			var n, k, l int
			var werr error
			w.begin(int(blk.Len()))
			la := append([]byte(nil), blk.Literals...)
			sa := append([]lz.Seq(nil), blk.Sequences...)
			pv := call(func() { n, k, l, werr = d.WriteBlock(lz.Block{Sequences: sa, Literals: la}) })
			if pv != nil {
				cl := "panic-Decoder.WriteBlock"
				if _, isSpin := pv.(spinSentinel); isSpin {
					cl = "spin-WriteBlock"
				}
				viols = append(viols, core.V(c, cl, "%s W=%d decoder B=%d block %d: %v", cc.Cfg.Type, W, B, bi, pv))
				ok = false
				break
			}
			if werr != nil {
				class := "refused-valid"
				if errIs(werr, errStrMatchLen) && k < len(blk.Sequences) &&
					int64(blk.Sequences[k].LitLen)+int64(blk.Sequences[k].MatchLen) > int64(effB-W) {
					class = "decoder-refuses-sequence-longer-than-BufferSize-minus-WindowSize"
					known = true
					st.Inc("refusals_in_known_class")
				}
				if beyond && errIs(werr, errStrOffset) {
					class = "parser-output-beyond-window-refused"
				}
				viols = append(viols, core.V(c, class, "%s cfg=%+v: Decoder{W=%d,B=%d}.WriteBlock refused block %d at sequence %d (%v) with %v (n=%d k=%d l=%d)",
					cc.Cfg.Type, cc.Cfg, W, B, bi, k, seqAt(blk.Sequences, k), werr, n, k, l))
				ok = false
				break
			}
			if k != len(blk.Sequences) || l != len(blk.Literals) || int64(n) != blk.Len() {
				viols = append(viols, core.V(c, "accepted-but-counts-wrong", "Decoder{W=%d,B=%d}.WriteBlock block %d: n=%d k=%d l=%d for %d sequences, %d literals, Len %d", W, B, bi, n, k, l, len(blk.Sequences), len(blk.Literals), blk.Len()))
				ok = false
				break
			}
			for _, s := range blk.Sequences {
				if g := int64(s.LitLen) + int64(s.MatchLen); g > int64(W) {
					st.Inc("sequences_longer_than_window_accepted")
				}
				if s.MatchLen > 65536 && s.Offset&(s.Offset-1) != 0 {
					st.Inc("matches_longer_than_64KiB_with_offsets_that_are_no_power_of_two_accepted")
				}
			}
			if len(blk.Sequences) > 65536 {
				st.Inc("blocks_with_more_than_64Ki_sequences_accepted")
			}
		}
		if !ok {
			continue
		}
		w.begin(0)
		var ferr error
		if pv := call(func() { ferr = d.Flush() }); pv != nil || ferr != nil {
			viols = append(viols, core.V(c, "flush-failed", "Flush: %v %v", pv, ferr))
			continue
		}
		if !bytes.Equal(w.accepted, cc.Stream) {
			viols = append(viols, core.V(c, "output-differs", "%s cfg=%+v: Decoder{W=%d,B=%d} produced %d bytes, input has %d (common prefix %d)", cc.Cfg.Type, cc.Cfg, W, B, len(w.accepted), len(cc.Stream), commonPrefix(w.accepted, cc.Stream)))
			continue
		}
		st.Inc("pairings_decoded_exactly")
	}
	_ = known
	// the same stream through a Decoder whose writer fails or writes short at
	// a few calls, the caller resuming as k and l indicate: still accepted and
	// reproduced exactly
	if len(viols) == 0 && len(blocks) > 0 && len(cc.Stream) <= 100000 {
		fr := core.Rand(c.Seed, "C07", "writer-faults", c.Idx)
		for _, B := range []int{0, W + 1 + fr.Intn(2*W+2)} {
			dc := &DCase{WS: W, BS: B, SUT: "decoder", Fault: map[int]WStep{}, Rich: fr.Intn(3) == 0}
			for _, blk := range blocks {
				op := DOp{K: "block", Data: blk.Literals}
				for _, q := range blk.Sequences {
					op.Seqs = append(op.Seqs, DSeq{L: q.LitLen, M: q.MatchLen, OK: 0, O: q.Offset})
				}
				dc.Ops = append(dc.Ops, op)
				if fr.Intn(8) == 0 {
					dc.Ops = append(dc.Ops, DOp{K: "flush"})
				}
			}
			dc.Ops = append(dc.Ops, DOp{K: "flush"})
			for i, nf := 0, 1+fr.Intn(4); i < nf; i++ {
				dc.Fault[fr.Intn(3+2*len(blocks))] = genWStep(fr)
			}
			if f := RunDecoderHistory(dc, st, c07owned); f != nil {
				viols = append(viols, core.V(c, f.Class, "%s cfg=%+v: Decoder{W=%d,B=%d} with writer faults %v, block %d (%s): %s", cc.Cfg.Type, cc.Cfg, W, B, dc.Fault, f.At, opName(dc, f.At), f.Msg))
				break
			}
			st.Inc("pairings_with_writer_faults")
		}
	}
	if len(blocks) > 0 {
		st.NonTrivial(c)
		st.Sample(c, 1)
	}
	// one violation per class is enough
	seen := map[string]bool{}
	var out []core.Violation
	for _, v := range viols {
		if !seen[v.Class] {
			seen[v.Class] = true
			out = append(out, v)
		}
	}
	return out
}

type chunkReader struct {
	data  []byte
	chunk int
	// eofWithData: the read that returns the last bytes also returns io.EOF
	eofWithData bool
}

func (r *chunkReader) Read(p []byte) (int, error) {
	if len(r.data) == 0 {
		return 0, io.EOF
	}
	n := len(p)
	if r.chunk > 0 && n > r.chunk {
		n = r.chunk
	}
	n = copy(p[:n], r.data)
	r.data = r.data[n:]
	if r.eofWithData && len(r.data) == 0 {
		// the last bytes arrive together with io.EOF
		return n, io.EOF
	}
	return n, nil
}

func init() {
	core.Register(&c07prop{base{id: "C07", level: "exploration",
		rule:        "two stream sources: (a) every parser type with boundary-biased small configurations (a third with BlockSize > 2*WindowSize so that sequences longer than the window occur) parses seeded inputs through Wrap with mixed flags; the block stream is first validated (expands to the input, offsets <= WindowSize) and then written to Decoder{W, B} for B in {0, W+1, W+2, 2W-1, 2W, 3W+1}; (b) arbitrary well-formed synthetic block streams with long matches and literal runs (sizes around BufferSize-WindowSize and beyond BufferSize); the decoder must accept without error and the flushed output must equal the input; non-trivial iff the stream has at least one block; distinct = distinct concrete case. A refusal is attributed to the recorded known finding only if the refused item is a well-formed sequence with LitLen+MatchLen > BufferSize-WindowSize and the error is the MatchLen error.",
		assumptions: []string{"streams that the harness cannot expand at all are skipped (C01 decides them); a stream that is refused because the parser left the window, or that expands to other bytes than the input, counts: the property promises acceptance and the original bytes for everything the parsers emit"},
		mandatory:   []string{"pairings_decoded_exactly", "sequences_longer_than_window_accepted", "valid_blocks", "decoder_writes_larger_than_free_space", "pairings_with_writer_faults"}}})
}
