package props

import (
	"fmt"
	"math/rand"
	"sort"

	"github.com/ulikunitz/lz/suffix"
	"verif/core"
	"verif/ref"
)

// checkSegmentsBig decides C10 for texts of hundreds of kilobytes, where the
// pairwise matrix of checkSegments is out of reach. Every callback is
// checked completely (range of m, distinct valid suffixes that are long
// enough, and - through the ranks of its members and the LCP table - that all
// of them share m bytes). The exactly-once clause is decided for the pairs on
// which a wrong grouping shows: all pairs of neighbours in suffix order, the
// first and the last member of every LCP interval (the pair whose common
// prefix is exactly the value of the interval), and random pairs up to 50
// ranks apart; for each of them the callbacks that contain both suffixes are
// counted. The order clause is decided for every LCP interval against the
// interval that encloses it. Inputs of Segments are a suffix array verified
// by the linear checker and the harness' own Kasai table.
func checkSegmentsBig(t []byte, minLen, maxLen int, libLCP bool, r *rand.Rand, st *core.Stats) (class, msg string) {
	n := len(t)
	sa := make([]int32, n)
	if pv := call(func() { suffix.Sort(t, sa) }); pv != nil {
		st.Inc("big_texts_skipped_sort_failed")
		return "", ""
	}
	if ref.CheckSA(t, sa) != "" {
		// C09's business
		st.Inc("big_texts_skipped_sort_failed")
		return "", ""
	}
	lcp := ref.Kasai(t, sa)
	if n > 0 {
		lcp[0] = 0
	}
	rank := make([]int32, n)
	for i, p := range sa {
		rank[p] = int32(i)
	}
	sa2 := append([]int32(nil), sa...)
	lcp2 := append([]int32(nil), lcp...)
	if libLCP {
		// the pipeline as the optimizing parser runs it: the LCP table comes
		// from suffix.LCP (called without the inverse); the groups are still
		// judged against the harness' own table
		for i := range lcp2 {
			lcp2[i] = -9
		}
		// (an unrelated, longer text goes through the same functions first:
		// whatever they keep between calls is in use)
		warm := make([]byte, n+n/8+100)
		for i := range warm {
			warm[i] = 'a' + byte((i*i/7+i)%3)
		}
		call(func() {
			wsa, wl := make([]int32, len(warm)), make([]int32, len(warm))
			suffix.Sort(warm, wsa)
			suffix.LCP(warm, wsa, nil, wl)
		})
		if pv := call(func() { suffix.LCP(t, sa2, nil, lcp2) }); pv != nil {
			return "pipeline-panic", fmt.Sprintf("suffix.LCP panics on %d bytes: %v", n, pv)
		}
		st.Inc("big_texts_with_the_librarys_lcp_table")
	}
	lcpIn := append([]int32(nil), lcp2...)
	type cbRec struct {
		m   int
		seg []int32
	}
	var cbs []cbRec
	total := 0
	if pv := call(func() {
		suffix.Segments(sa2, lcp2, minLen, maxLen, func(m int, seg []int32) {
			cbs = append(cbs, cbRec{m, append([]int32(nil), seg...)})
			total += len(seg)
			// the optimizing parser sorts the segment in place
			if len(seg) < 64 {
				sort.Slice(seg, func(i, j int) bool { return seg[i] < seg[j] })
			}
		})
	}); pv != nil {
		return "segments-panic", fmt.Sprintf("Segments(minLen=%d,maxLen=%d) on %d bytes panics: %v", minLen, maxLen, n, pv)
	}
	for i := range lcpIn {
		if lcp2[i] != lcpIn[i] {
			return "lcp-modified", fmt.Sprintf("Segments modified lcp[%d]", i)
		}
	}
	st.Add("callbacks", int64(len(cbs)))
	st.Add("big_text_callback_members", int64(total))
	// ---- every callback on its own
	stamp := make([]int32, n)
	for i := range stamp {
		stamp[i] = -1
	}
	memberCount := make([]int32, n+1)
	budget := 60*n + 1000000
	for ci, cb := range cbs {
		if cb.m < minLen || cb.m > maxLen {
			return "m-out-of-range", fmt.Sprintf("callback %d has m=%d outside [%d,%d]", ci, cb.m, minLen, maxLen)
		}
		lo, hi := int32(n), int32(-1)
		for _, x := range cb.seg {
			if x < 0 || int(x) >= n {
				return "segment-index", fmt.Sprintf("callback %d (m=%d) contains index %d", ci, cb.m, x)
			}
			if stamp[x] == int32(ci) {
				return "segment-duplicate", fmt.Sprintf("callback %d (m=%d) contains suffix %d twice", ci, cb.m, x)
			}
			stamp[x] = int32(ci)
			if n-int(x) < cb.m {
				return "segment-not-sharing", fmt.Sprintf("callback %d (m=%d) contains suffix %d, which is shorter than m", ci, cb.m, x)
			}
			memberCount[x]++
			if rank[x] < lo {
				lo = rank[x]
			}
			if rank[x] > hi {
				hi = rank[x]
			}
		}
		if hi > lo {
			budget -= int(hi - lo)
			if budget < 0 {
				st.Inconclusive = append(st.Inconclusive, "C10 big text: the callbacks are spread so widely over the suffix order that the linear oracle cannot decide them")
				return "", ""
			}
			for k := lo + 1; k <= hi; k++ {
				if int(lcp[k]) < cb.m {
					return "segment-not-sharing", fmt.Sprintf("callback %d (m=%d, %d members) contains suffixes %d and %d, which share fewer than m bytes (suffixes %d and %d, neighbours in suffix order between them, share %d)", ci, cb.m, len(cb.seg), sa[lo], sa[hi], sa[k-1], sa[k], lcp[k])
				}
			}
		}
	}
	// ---- membership lists (callback ids per suffix, ascending)
	start := make([]int32, n+1)
	for i := 0; i < n; i++ {
		start[i+1] = start[i] + memberCount[i]
	}
	fill := append([]int32(nil), start[:n]...)
	memb := make([]int32, total)
	for ci, cb := range cbs {
		for _, x := range cb.seg {
			memb[fill[x]] = int32(ci)
			fill[x]++
		}
	}
	// both returns the callbacks with m == mm that contain p and q
	both := func(p, q int32, mm int) (cnt int, first int32) {
		a, ae := start[p], start[p+1]
		b, be := start[q], start[q+1]
		first = -1
		for a < ae && b < be {
			switch {
			case memb[a] < memb[b]:
				a++
			case memb[a] > memb[b]:
				b++
			default:
				if cbs[memb[a]].m == mm {
					if cnt == 0 {
						first = memb[a]
					}
					cnt++
				}
				a++
				b++
			}
		}
		return
	}
	clip := func(c int) int {
		if c > maxLen {
			return maxLen
		}
		return c
	}
	checkPair := func(p, q int32, c int, what string) (string, string) {
		if c < minLen {
			return "", ""
		}
		st.Inc("pairs_checked")
		cnt, _ := both(p, q, clip(c))
		if cnt != 1 {
			cl := "group-missing-pair"
			if cnt > 1 {
				cl = "group-reported-twice"
			}
			return cl, fmt.Sprintf("suffixes %d and %d (%s) share %d bytes: %d callbacks with m=%d contain both (want exactly 1); text of %d bytes, minLen=%d maxLen=%d, %d callbacks", p, q, what, c, cnt, clip(c), n, minLen, maxLen, len(cbs))
		}
		return "", ""
	}
	// (1) neighbours in suffix order
	for k := 1; k < n; k++ {
		if c, m := checkPair(sa[k-1], sa[k], int(lcp[k]), "neighbours in suffix order"); c != "" {
			return c, m
		}
	}
	// (2) LCP intervals: first and last member, and the order clause
	type iv struct {
		l, lo, hi int32
		parent    int32
	}
	var ivs []iv
	var stack []int32 // indexes into ivs
	ivs = append(ivs, iv{l: 0, lo: 0, hi: -1, parent: -1})
	stack = append(stack, 0)
	var closed []int32
	for k := 1; k <= n; k++ {
		cur := int32(-1)
		if k < n {
			cur = lcp[k]
		}
		lb := int32(k - 1)
		var last int32 = -1
		for cur < ivs[stack[len(stack)-1]].l {
			top := stack[len(stack)-1]
			stack = stack[:len(stack)-1]
			ivs[top].hi = int32(k - 1)
			lb = ivs[top].lo
			if last >= 0 {
				ivs[last].parent = top
			}
			last = top
			closed = append(closed, top)
			if len(stack) == 0 {
				break
			}
		}
		if len(stack) == 0 {
			break
		}
		if cur > ivs[stack[len(stack)-1]].l {
			ivs = append(ivs, iv{l: cur, lo: lb, hi: -1, parent: -1})
			id := int32(len(ivs) - 1)
			if last >= 0 {
				ivs[last].parent = id
			}
			stack = append(stack, id)
		} else if last >= 0 {
			ivs[last].parent = stack[len(stack)-1]
		}
	}
	depth := 0
	idOf := make([]int32, len(ivs))
	for i := range idOf {
		idOf[i] = -2
	}
	find := func(x int32) int32 {
		if idOf[x] != -2 {
			return idOf[x]
		}
		v := ivs[x]
		idOf[x] = -1
		if int(v.l) >= minLen && v.hi > v.lo {
			_, idOf[x] = both(sa[v.lo], sa[v.hi], clip(int(v.l)))
		}
		return idOf[x]
	}
	for _, x := range closed {
		v := ivs[x]
		if int(v.l) < minLen || v.hi <= v.lo {
			continue
		}
		st.Inc("lcp_intervals_checked")
		if c, m := checkPair(sa[v.lo], sa[v.hi], int(v.l), "first and last member of an LCP interval"); c != "" {
			return c, m
		}
		if v.parent >= 0 {
			p := ivs[v.parent]
			if int(p.l) >= minLen && clip(int(p.l)) < clip(int(v.l)) {
				a, b := find(x), find(v.parent)
				if a >= 0 && b >= 0 && a > b {
					return "group-order", fmt.Sprintf("the group of the %d suffixes that share %d bytes (callback %d, m=%d) is reported after the group of %d suffixes that contains it (callback %d, m=%d)", v.hi-v.lo+1, v.l, a, cbs[a].m, p.hi-p.lo+1, b, cbs[b].m)
				}
				st.Inc("nested_groups_order_checked")
			}
		}
		d := 0
		for q := v.parent; q >= 0 && d < 100000; q = ivs[q].parent {
			d++
		}
		if d > depth {
			depth = d
		}
	}
	if depth > 64 {
		st.Inc("texts_with_interval_nesting_deeper_than_64")
	}
	// (3) random pairs up to 50 ranks apart
	for s := 0; s < 200000 && n > 2; s++ {
		a := r.Intn(n - 1)
		b := a + 1 + r.Intn(50)
		if b >= n {
			b = n - 1
		}
		c := int(lcp[a+1])
		for k := a + 2; k <= b; k++ {
			if int(lcp[k]) < c {
				c = int(lcp[k])
			}
		}
		if cl, m := checkPair(sa[a], sa[b], c, fmt.Sprintf("%d ranks apart in suffix order", b-a)); cl != "" {
			return cl, m
		}
	}
	return "", ""
}
