package props

import (
	"bufio"
	"bytes"
	"fmt"
	"io"
	"math/rand"
	"strings"
	"testing/iotest"

	"github.com/ulikunitz/lz"
	"verif/core"
	"verif/gen"
	"verif/ref"
)

// C08Case is an input, a parser configuration, fault-free chunkings and
// (optionally) a seeded random fault plan; Run additionally enumerates fault
// placements for small inputs.
type C08Case struct {
	Cfg     gen.Cfg   `json:"cfg"`
	Stream  []byte    `json:"stream"`
	Flags   int       `json:"flags"`
	Chunks  [][]RStep `json:"chunks"`
	Faulty  []RStep   `json:"faulty,omitempty"`
	Persist int       `json:"persist,omitempty"` // reader fails persistently from this call on (for a while)
	Enum    bool      `json:"enum"`
	Edge    bool      `json:"edge,omitempty"` // sizes around the capacity steps of the buffer
}

// wrapReader is the recording fault-plan reader of C08.
type wrapReader struct {
	data   []byte
	pos    int
	steps  []RStep
	step   int
	calls  int
	zero   int
	fault  map[int]int // call index -> 1 error without data, 2 error with data
	faults int
	// persistent failure window [pFrom, pTo)
	pFrom, pTo int
	lastErr    error
	eof        bool
	stall      int
}

func (r *wrapReader) Read(p []byte) (n int, err error) {
	idx := r.calls
	r.calls++
	defer func() {
		r.lastErr = err
		if err == io.EOF {
			r.eof = true
		}
	}()
	if r.eof {
		// a reader at the end of its data stays there
		return 0, io.EOF
	}
	if r.pFrom <= idx && idx < r.pTo {
		r.faults++
		return 0, ErrInjected
	}
	if r.stall > 0 {
		r.stall--
		return 0, nil
	}
	st := RStep{N: len(p)}
	if r.step < len(r.steps) {
		st = r.steps[r.step]
		r.step++
	}
	if st.Err == 3 {
		// a reader that has nothing for st.N calls in a row
		if _, ok := r.fault[idx]; !ok && len(p) > 0 {
			r.stall = st.N - 1
			return 0, nil
		}
		st = RStep{N: 0}
	}
	if f, ok := r.fault[idx]; ok {
		st.Err = 2
		if f == 1 {
			st.N = 0
		}
	}
	n = st.N
	if n > len(p) {
		n = len(p)
	}
	if n > len(r.data)-r.pos {
		n = len(r.data) - r.pos
	}
	if n < 0 {
		n = 0
	}
	copy(p, r.data[r.pos:r.pos+n])
	r.pos += n
	switch {
	case st.Err == 2:
		r.faults++
		return n, ErrInjected
	case r.pos >= len(r.data) && (st.Err == 1 || n == 0):
		// EOF only at the true end of the data (possibly with data)
		return n, io.EOF
	}
	if n == 0 && len(p) > 0 {
		r.zero++
		if r.zero > 3 {
			r.zero = 0
			p[0] = r.data[r.pos]
			r.pos++
			return 1, nil
		}
	} else {
		r.zero = 0
	}
	return n, nil
}

type c08prop struct{ base }

// CaseCPU: a case enumerates up to several hundred complete stream runs.
func (p *c08prop) CaseCPU(tier string) int { return 120 }

// KindCPU: the edge cases of the suffix array parsers sort 64 KiB buffers
// dozens of times (15 s measured on the unchanged tree).
func (p *c08prop) KindCPU(kind, tier string) int {
	if kind == "edge:OSAP" || kind == "edge:GSAP" || kind == "big:OSAP" || kind == "big:GSAP" {
		return 400
	}
	return 120
}

func (p *c08prop) Plan(tier string, seed int64) []core.Segment {
	m := tierScale(tier, 12)
	var segs []core.Segment
	for _, t := range gen.ParserTypes {
		segs = append(segs, core.Segment{Kind: "corpus:" + t, N: 60}, core.Segment{Kind: t, N: 1400 * m})
		big := int64(3)
		if t == "GSAP" || t == "OSAP" {
			big = 1
		}
		segs = append(segs, core.Segment{Kind: "big:" + t, N: big * m, Chunk: 1})
		edge := int64(60)
		if t == "GSAP" || t == "OSAP" {
			edge = 6
		}
		segs = append(segs, core.Segment{Kind: "edge:" + t, N: edge * tierScale(tier, 6), Chunk: 3})
		// readers that fail hundreds of times in one stream and recover
		segs = append(segs, core.Segment{Kind: "flaky:" + t, N: 20 * tierScale(tier, 6), Chunk: 5})
		if t != "GSAP" && t != "OSAP" {
			// buffers and streams of several megabytes
			segs = append(segs, core.Segment{Kind: "huge:" + t, N: 2 * tierScale(tier, 3), Chunk: 1})
		}
	}
	return segs
}

func genChunking(r *rand.Rand, style int, n int) []RStep {
	var steps []RStep
	switch style {
	case 0: // single bytes
		for i := 0; i < n+2; i++ {
			steps = append(steps, RStep{N: 1})
		}
	case 1: // random short reads
		for s := 0; s < n; {
			k := 1 + r.Intn(1+r.Intn(40))
			steps = append(steps, RStep{N: k})
			s += k
		}
	case 2: // short reads with empty reads in between
		for s := 0; s < n; {
			if r.Intn(3) == 0 {
				steps = append(steps, RStep{N: 0})
				if r.Intn(25) == 0 {
					// nothing for 100-300 calls in a row
					steps = append(steps, RStep{N: 100 + r.Intn(200), Err: 3})
				}
				continue
			}
			k := 1 + r.Intn(30)
			steps = append(steps, RStep{N: k})
			s += k
		}
	default: // data together with io.EOF: every step carries the EOF flag,
		// which the reader honours only when the data is exhausted
		for s := 0; s < n; {
			k := 1 + r.Intn(1+r.Intn(n+1))
			steps = append(steps, RStep{N: k, Err: 1})
			s += k
		}
	}
	return steps
}

func (p *c08prop) Gen(kind string, idx int64, seed int64, tier string) core.Case {
	class, typ := splitKind(kind)
	s := seed
	if class == "corpus" {
		s = 0
	}
	r := core.Rand(s, p.id, kind, idx)
	if class == "big" {
		// buffers beyond 64 KiB (and the default configuration), inputs of
		// several buffer fills, chunkings with large chunks
		c := gen.SmallCfg(r, typ, gen.Opts{})
		c.BufferSize = []int{100000, 1 << 18, 65537, 0}[idx%4]
		c.ShrinkSize, c.BlockSize = 0, []int{0, 4096, 65536}[r.Intn(3)]
		c.WindowSize = []int{0, 1 << 16, 1 << 20}[r.Intn(3)]
		n := 300000 + r.Intn(400000)
		if typ == "GSAP" || typ == "OSAP" {
			c.BufferSize, c.WindowSize = 1<<17, 1<<16
			n = 300000
		}
		_, stream := gen.Bytes(r, n, c.Hint())
		c.TameBig()
		cc := C08Case{Cfg: c, Stream: stream}
		for _, ch := range []int{1000, 4096, 20000, 49152} {
			var steps []RStep
			for s := 0; s < n; s += ch {
				steps = append(steps, RStep{N: ch})
			}
			cc.Chunks = append(cc.Chunks, steps)
		}
		steps := []RStep{{N: 70000}, {N: 5, Err: 2}, {N: 100000}, {N: 0, Err: 2}, {N: 65536}}
		cc.Faulty = steps
		return core.MkCase(p.id, kind, idx, seed, tier, cc)
	}
	if class == "huge" {
		// the default buffer (8 MiB) and buffers of 3-5 MiB on streams of
		// about 5 MiB: the capacity of the buffer grows in steps that depend
		// on the sizes of the reads; the blocks must not
		c := gen.Cfg{Type: typ}
		if idx%2 == 1 {
			c = gen.SmallCfg(r, typ, gen.Opts{})
			c.BufferSize = 3<<20 + r.Intn(2<<20)
			c.WindowSize = []int{0, 1 << 16, 1 << 20}[r.Intn(3)]
		}
		c.ShrinkSize, c.BlockSize = 0, []int{0, 65536, 1 << 17, 100000}[r.Intn(4)]
		n := 5<<20 + r.Intn(1000)
		_, stream := gen.Bytes(r, n, c.Hint())
		cc := C08Case{Cfg: c, Stream: stream}
		for _, ch := range []int{1000, 4096, 65553, 300000} {
			var steps []RStep
			for s := 0; s < n; s += ch {
				steps = append(steps, RStep{N: ch})
			}
			cc.Chunks = append(cc.Chunks, steps)
		}
		cc.Faulty = []RStep{{N: 1 << 20}, {N: 5, Err: 2}, {N: 2 << 20}, {N: 0, Err: 2}, {N: 65536}}
		return core.MkCase(p.id, kind, idx, seed, tier, cc)
	}
	if class == "flaky" {
		// a reader that fails again and again (once, twice or three times in
		// a row, without data) and always recovers: hundreds of failures in
		// one stream that runs through many buffer fills
		c := gen.SmallCfg(r, typ, gen.Opts{MaxBuf: 2000, MinBuf: 64})
		n := 3000 + r.Intn(5000)
		if typ == "GSAP" || typ == "OSAP" {
			// (every refill sorts the buffer again)
			c = gen.SmallCfg(r, typ, gen.Opts{MaxBuf: 200, MinBuf: 32})
			n = 1200 + r.Intn(800)
		}
		_, stream := gen.Bytes(r, n, c.Hint())
		cc := C08Case{Cfg: c, Stream: stream}
		for st := 0; st < 4; st++ {
			cc.Chunks = append(cc.Chunks, genChunking(r, st, n))
		}
		piece := []int{16, 1, 7, 100}[r.Intn(4)]
		fails := 1 + r.Intn(3)
		var steps []RStep
		for s := 0; s < n; s += piece {
			steps = append(steps, RStep{N: piece})
			for f := 0; f < fails; f++ {
				steps = append(steps, RStep{N: 0, Err: 2})
			}
		}
		cc.Faulty = steps
		return core.MkCase(p.id, kind, idx, seed, tier, cc)
	}
	if class == "edge" {
		// buffer sizes and stream lengths around the capacity steps of the
		// buffer (ReadFrom reads in pieces of 32 KiB and allocates 2t+7
		// bytes): the margin behind the data must survive every step
		c := gen.SmallCfg(r, typ, gen.Opts{})
		c.BufferSize = []int{65537, 65538, 65539, 65540, 65541, 65542, 65543, 65544, 65600, 100000, 0, 196615, 131072 + 7}[r.Intn(13)]
		if r.Intn(4) == 0 {
			c.BufferSize = 65536 + r.Intn(12)
		}
		c.ShrinkSize, c.BlockSize = 0, []int{0, 4096, 65536, 1 << 17}[r.Intn(4)]
		c.WindowSize = []int{0, 1 << 16, 4096}[r.Intn(3)]
		if typ == "GSAP" || typ == "OSAP" {
			c.WindowSize = 1 << 16
			if c.BufferSize == 0 || c.BufferSize > 1<<17 {
				c.BufferSize = 1<<16 + 3 + r.Intn(5)
			}
		}
		base := []int{65536, 65536, 65543, 196608, 32768}[r.Intn(5)]
		if c.BufferSize > 0 && r.Intn(3) == 0 {
			base = c.BufferSize
		}
		n := base + r.Intn(17) - 8
		if (typ == "GSAP" || typ == "OSAP") && n > 70000 {
			n = 65536 + r.Intn(17) - 8
		}
		_, stream := gen.Bytes(r, n, c.Hint())
		c.TameBig()
		cc := C08Case{Cfg: c, Stream: stream, Edge: true}
		// all at once, data together with io.EOF; all at once, io.EOF in a
		// call of its own; 32 KiB pieces; 1000 byte pieces with io.EOF
		cc.Chunks = append(cc.Chunks, []RStep{{N: n, Err: 1}}, []RStep{{N: n}}, nil, nil)
		for s := 0; s < n; s += 32768 {
			cc.Chunks[2] = append(cc.Chunks[2], RStep{N: 32768})
		}
		for s := 0; s < n; s += 1000 {
			cc.Chunks[3] = append(cc.Chunks[3], RStep{N: 1000, Err: 1})
		}
		cc.Faulty = []RStep{{N: 65536 + r.Intn(8), Err: 2}, {N: r.Intn(8), Err: 2}, {N: n}}
		return core.MkCase(p.id, kind, idx, seed, tier, cc)
	}
	c := gen.SmallCfg(r, typ, gen.Opts{MaxBuf: 200})
	var n int
	switch r.Intn(6) {
	case 0:
		n = r.Intn(c.BufferSize + 1) // shorter than the buffer
	case 1:
		n = c.BufferSize * (1 + r.Intn(4)) // exact multiples
	case 2:
		n = c.BlockSize * (1 + r.Intn(6))
	case 3:
		n = 0
		if r.Intn(2) == 0 {
			n = 1
		}
	default:
		n = r.Intn(5*c.BufferSize + 40)
	}
	if n > 1500 {
		n = 1500
	}
	_, stream := gen.Bytes(r, n, c.Hint())
	cc := C08Case{Cfg: c, Stream: stream, Enum: n <= 5*c.BufferSize && n <= 400}
	if typ == "GSAP" || typ == "OSAP" {
		// every refill re-sorts the buffer: keep the enumeration affordable
		sh := c.ShrinkSize
		if sh == 0 {
			sh = c.BufferSize / 2
		}
		if fills := n / (c.BufferSize - sh); fills > 30 {
			cc.Enum = false
		}
	}
	if r.Intn(3) == 0 {
		cc.Flags = lz.NoTrailingLiterals
	}
	for st := 0; st < 4; st++ {
		cc.Chunks = append(cc.Chunks, genChunking(r, st, n))
	}
	// random multi-fault plan
	steps := genChunking(r, 1+r.Intn(3), n)
	for i, nf := 0, 1+r.Intn(3); i < nf && len(steps) > 0; i++ {
		j := r.Intn(len(steps))
		steps[j].Err = 2
		if r.Intn(2) == 0 {
			steps[j].N = 0
		}
	}
	cc.Faulty = steps
	if r.Intn(4) == 0 {
		cc.Persist = 1 + r.Intn(8)
	}
	return core.MkCase(p.id, kind, idx, seed, tier, cc)
}

type wrapResult struct {
	blocks []lz.Block
	dec    []byte
	calls  int
	rcalls int
	faults int
}

// runWrap drives a WrappedParser over the reader until io.EOF. It returns a
// violation class and message if a C08 clause is refuted.
func runWrap(cc *C08Case, rd *wrapReader, st *core.Stats) (res *wrapResult, class, msg string) {
	return runWrapReader(cc, rd, rd, st)
}

// stdReaders builds readers of different dynamic types from the standard
// library over the same data (composition, buffering, WriterTo fast paths,
// one-byte and data-with-error readers).
func stdReaders(data []byte) map[string]io.Reader {
	a, b := len(data)/3, 2*len(data)/3
	return map[string]io.Reader{
		"bytes.Reader":     bytes.NewReader(data),
		"strings.Reader":   strings.NewReader(string(data)),
		"bytes.Buffer":     bytes.NewBuffer(append([]byte(nil), data...)),
		"bufio.Reader(16)": bufio.NewReaderSize(bytes.NewReader(data), 16),
		"MultiReader(LimitReader,bytes.Reader,strings.Reader)": io.MultiReader(
			io.LimitReader(bytes.NewReader(data[:a]), int64(a)), bytes.NewReader(data[a:b]), strings.NewReader(string(data[b:]))),
		"MultiReader(struct readers)": io.MultiReader(
			&chunkReader{data: data[:a], chunk: 7}, &chunkReader{data: data[a:b], chunk: 1000}, &chunkReader{data: data[b:]}),
		"iotest.OneByteReader": iotest.OneByteReader(bytes.NewReader(data)),
		"iotest.HalfReader":    iotest.HalfReader(bytes.NewReader(data)),
		"iotest.DataErrReader": iotest.DataErrReader(bytes.NewReader(data)),
		"io.TeeReader":         io.TeeReader(bytes.NewReader(data), io.Discard),
	}
}

// runWrapReader drives a WrappedParser over r; rd (may be a dummy) carries the
// bookkeeping of the plan reader.
func runWrapReader(cc *C08Case, r io.Reader, rd *wrapReader, st *core.Stats) (res *wrapResult, class, msg string) {
	ps, err := NewParserFor(cc.Cfg)
	if err != nil {
		return nil, "", ""
	}
	wp := lz.Wrap(r, ps.P)
	return driveWrap(wp, cc, r, rd, st, -1)
}

// driveWrap calls Parse on the WrappedParser until io.EOF, or until stopAfter
// blocks were delivered (stopAfter >= 0: the caller abandons the stream).
func driveWrap(wp *lz.WrappedParser, cc *C08Case, r io.Reader, rd *wrapReader, st *core.Stats, stopAfter int) (res *wrapResult, class, msg string) {
	res = &wrapResult{}
	plain := r != io.Reader(rd)
	// (every planned failure of the reader may cost one Parse call and one
	// reader call more)
	planned, stalls := len(rd.fault), 0
	for _, s := range rd.steps {
		if s.Err == 2 {
			planned++
		}
		if s.Err == 3 {
			stalls += s.N
		}
	}
	maxCalls := len(rd.data) + 600 + 16 + 2*planned
	maxReads := 64 + 8*len(rd.data) + 700 + 2*len(rd.steps) + stalls
	errorsSeen := 0
	// one block value for the whole stream, as a caller reuses it; its whole
	// capacity is overwritten before every call (memory handed out by the
	// parser in place of a copy is thereby destroyed)
	var blk lz.Block
	for {
		if stopAfter >= 0 && len(res.blocks) >= stopAfter {
			return res, "", ""
		}
		poisonBlock(&blk)
		var n int
		var perr error
		if pv := call(func() { n, perr = wp.Parse(&blk, cc.Flags) }); pv != nil {
			return res, "panic", fmt.Sprintf("wrapped Parse: %s", fmtPanic(pv))
		}
		res.calls++
		if res.calls > maxCalls || rd.calls > maxReads {
			return res, "no-progress", fmt.Sprintf("stream of %d bytes not finished after %d Parse calls and %d reader calls (%d faults)", len(rd.data), res.calls, rd.calls, rd.faults)
		}
		handed := rd.data[:rd.pos]
		if plain {
			// standard readers are not instrumented: everything may have
			// been handed out already
			handed = rd.data
			rd.lastErr = io.EOF
			rd.pos = len(rd.data)
		}
		switch {
		case perr == nil:
			if n <= 0 {
				return res, "zero-progress", fmt.Sprintf("wrapped Parse returned n=%d, nil", n)
			}
			nd, xerr := ref.Expand(res.dec, blk.Sequences, blk.Literals)
			if xerr != nil {
				return res, "unexpandable-block", xerr.Error()
			}
			if len(nd)-len(res.dec) != n {
				return res, "n-differs-from-block", fmt.Sprintf("n=%d, block expands to %d bytes", n, len(nd)-len(res.dec))
			}
			res.dec = nd
			if len(res.dec) > len(handed) || !bytes.Equal(res.dec, handed[:len(res.dec)]) {
				return res, "blocks-differ-from-reader-bytes", fmt.Sprintf("after %d blocks the expansion (%d bytes) is not a prefix of the %d bytes the reader handed out (common prefix %d)", len(res.blocks)+1, len(res.dec), len(handed), commonPrefix(res.dec, handed))
			}
			res.blocks = append(res.blocks, lz.Block{Sequences: append([]lz.Seq{}, blk.Sequences...), Literals: append([]byte{}, blk.Literals...)})
		case perr == io.EOF:
			if n != 0 {
				return res, "eof-with-n", fmt.Sprintf("io.EOF with n=%d", n)
			}
			if rd.lastErr != io.EOF {
				return res, "premature-eof", fmt.Sprintf("wrapped Parse returned io.EOF but the reader's last result was %v", rd.lastErr)
			}
			if !bytes.Equal(res.dec, handed) {
				return res, "eof-before-all-delivered", fmt.Sprintf("io.EOF after %d of %d bytes the reader handed out were delivered", len(res.dec), len(handed))
			}
			if rd.pos != len(rd.data) {
				return res, "harness", "reader signalled EOF before its data was exhausted"
			}
			// EOF must be repeated
			for i := 0; i < 3; i++ {
				var n2 int
				var e2 error
				blk2 := lz.Block{Literals: []byte{1, 2, 3}}
				if pv := call(func() { n2, e2 = wp.Parse(&blk2, cc.Flags) }); pv != nil {
					return res, "panic", fmt.Sprintf("wrapped Parse after EOF: %s", fmtPanic(pv))
				}
				if n2 != 0 || e2 != io.EOF {
					return res, "eof-not-repeated", fmt.Sprintf("call %d after io.EOF returned n=%d err=%v", i+1, n2, e2)
				}
			}
			st.Inc("streams_completed")
			res.rcalls, res.faults = rd.calls, rd.faults
			return res, "", ""
		case perr == ErrInjected:
			errorsSeen++
			if n != 0 {
				return res, "error-with-n", fmt.Sprintf("reader error returned with n=%d", n)
			}
			if rd.faults == 0 {
				return res, "error-without-fault", "the injected error was returned although the reader has not failed"
			}
			if !bytes.Equal(res.dec, handed) {
				return res, "error-before-all-delivered", fmt.Sprintf("reader error returned while only %d of the %d bytes read before the failure are delivered", len(res.dec), len(handed))
			}
			st.Inc("reader_errors_surfaced")
		default:
			return res, "foreign-error", fmt.Sprintf("wrapped Parse returned %v, which is neither io.EOF nor the reader's error", perr)
		}
	}
}

func blocksEqual(a, b []lz.Block) (bool, string) {
	if len(a) != len(b) {
		return false, fmt.Sprintf("%d blocks vs %d blocks", len(a), len(b))
	}
	for i := range a {
		if len(a[i].Sequences) != len(b[i].Sequences) || !bytes.Equal(a[i].Literals, b[i].Literals) {
			return false, fmt.Sprintf("block %d differs: %d sequences/%d literals vs %d sequences/%d literals", i, len(a[i].Sequences), len(a[i].Literals), len(b[i].Sequences), len(b[i].Literals))
		}
		for j := range a[i].Sequences {
			if a[i].Sequences[j] != b[i].Sequences[j] {
				return false, fmt.Sprintf("block %d sequence %d: %+v vs %+v", i, j, a[i].Sequences[j], b[i].Sequences[j])
			}
		}
	}
	return true, ""
}

func (p *c08prop) Run(c *core.Case, st *core.Stats) []core.Violation {
	cc, err := decode[C08Case](c)
	if err != nil {
		return []core.Violation{core.V(c, "harness", "bad case: %v", err)}
	}
	if _, nerr := NewParserFor(cc.Cfg); nerr != nil {
		st.Inc("config_rejected")
		return nil
	}
	viol := func(class, where, msg string) []core.Violation {
		return []core.Violation{core.V(c, class, "%s cfg=%+v input %d bytes, %s: %s", cc.Cfg.Type, cc.Cfg, len(cc.Stream), where, msg)}
	}
	// 1. reference: full reads
	refRes, class, msg := runWrap(cc, &wrapReader{data: cc.Stream, pFrom: -1, pTo: -1}, st)
	if class != "" {
		return viol(class, "full reads", msg)
	}
	st.Inc("reference_runs")
	if len(refRes.blocks) > 1 {
		st.Inc("streams_with_several_blocks")
	}
	if len(cc.Stream) > cc.Cfg.BufferSize {
		st.Inc("streams_longer_than_buffer")
	}
	if cc.Cfg.BufferSize > 0 && len(cc.Stream) > 0 && len(cc.Stream)%cc.Cfg.BufferSize == 0 {
		st.Inc("streams_multiple_of_buffersize")
	}
	// 2. chunkings: identical block sequence
	for i, ch := range cc.Chunks {
		res, class, msg := runWrap(cc, &wrapReader{data: cc.Stream, steps: ch, pFrom: -1, pTo: -1}, st)
		if class != "" {
			return viol(class, fmt.Sprintf("chunking %d", i), msg)
		}
		if ok, why := blocksEqual(refRes.blocks, res.blocks); !ok {
			return viol("chunking-dependent-blocks", fmt.Sprintf("chunking %d", i), "block sequence differs from the one under full reads: "+why)
		}
		st.Inc("chunkings_compared")
	}
	// 2b. readers of other dynamic types from the standard library
	if cc.Edge {
		st.Inc("streams_around_capacity_steps")
	}
	if c.Idx%4 == 0 || len(cc.Stream) > 100000 || cc.Edge && c.Idx%2 == 0 {
		for name, r := range stdReaders(cc.Stream) {
			res, class, msg := runWrapReader(cc, r, &wrapReader{data: cc.Stream, pFrom: -1, pTo: -1}, st)
			if class != "" {
				return viol(class, "reader "+name, msg)
			}
			if !bytes.Equal(res.dec, cc.Stream) {
				return viol("eof-before-all-delivered", "reader "+name, fmt.Sprintf("io.EOF after %d of %d bytes", len(res.dec), len(cc.Stream)))
			}
			if ok, why := blocksEqual(refRes.blocks, res.blocks); !ok {
				return viol("chunking-dependent-blocks", "reader "+name, "block sequence differs from the one under full reads: "+why)
			}
			st.Inc("standard_library_readers_compared")
		}
	}
	// 2c. a WrappedParser is reused for a second stream through Reset(reader):
	// the first stream is abandoned after some blocks (before or after its
	// end was reported), the second one must be delivered completely
	if len(cc.Chunks) >= 4 {
		second := make([]byte, len(cc.Stream))
		for i, b := range cc.Stream {
			second[len(second)-1-i] = b
		}
		if c.Idx%2 == 0 {
			second = append(second[:len(second)/2:len(second)/2], cc.Stream...)
		}
		nb := len(refRes.blocks)
		for vi, stop := range []int{nb, -1, nb / 2, 1, -2} {
			if stop > nb || (len(cc.Stream) > 100000 && vi >= 2) {
				continue
			}
			ps, _ := NewParserFor(cc.Cfg)
			var steps []RStep
			if vi != 2 {
				steps = cc.Chunks[3] // data together with io.EOF
			}
			rdA := &wrapReader{data: cc.Stream, steps: steps, pFrom: -1, pTo: -1}
			wp := lz.Wrap(rdA, ps.P)
			if stop == -2 {
				// the first stream ends with a reader that fails for good: the
				// caller gives up after the error was reported twice
				rdA.pFrom, rdA.pTo = 1+int(c.Idx%5), 1<<30
				nerr := 0
				for i := 0; i < len(cc.Stream)+600 && nerr < 2; i++ {
					var blk lz.Block
					var perr error
					if pv := call(func() { _, perr = wp.Parse(&blk, cc.Flags) }); pv != nil {
						return viol("panic", "first stream with a failing reader", fmtPanic(pv))
					}
					if perr == io.EOF {
						break
					}
					if perr != nil {
						nerr++
					}
				}
				st.Inc("wrapped_reset_after_reader_failure")
			} else if _, class, msg := driveWrap(wp, cc, rdA, rdA, st, stop); class != "" {
				return viol(class, fmt.Sprintf("first stream of a reused WrappedParser (stop after %d blocks)", stop), msg)
			}
			rdB := &wrapReader{data: second, steps: cc.Chunks[(vi+1)%len(cc.Chunks)], pFrom: -1, pTo: -1}
			if pv := call(func() { wp.Reset(rdB) }); pv != nil {
				return viol("panic", "WrappedParser.Reset", fmtPanic(pv))
			}
			resB, class, msg := driveWrap(wp, cc, rdB, rdB, st, -1)
			if class != "" {
				return viol(class, fmt.Sprintf("second stream (%d bytes) after WrappedParser.Reset; the first stream was left after %d of %d blocks", len(second), stop, nb), msg)
			}
			if !bytes.Equal(resB.dec, second) {
				return viol("eof-before-all-delivered", "second stream after WrappedParser.Reset", fmt.Sprintf("io.EOF after %d of %d bytes", len(resB.dec), len(second)))
			}
			st.Inc("streams_after_wrapped_reset")
		}
	}
	// 2d. a WrappedParser that finished a stream and was Reset stays in use
	// while a second one (new parser, same configuration) serves a stream of its
	// own: block by block in turns, each must deliver exactly its reader's bytes
	if len(cc.Chunks) >= 4 && len(cc.Stream) <= 100000 && c.Idx%2 == 0 {
		type side struct {
			wp   *lz.WrappedParser
			rd   *wrapReader
			dec  []byte
			done bool
			blk  lz.Block
			name string
		}
		psA, _ := NewParserFor(cc.Cfg)
		rd0 := &wrapReader{data: cc.Stream, pFrom: -1, pTo: -1}
		wpA := lz.Wrap(rd0, psA.P)
		if _, class, msg := driveWrap(wpA, cc, rd0, rd0, st, -1); class != "" {
			return viol(class, "first stream of the first of two WrappedParsers", msg)
		}
		dataA := append(append([]byte{}, cc.Stream[len(cc.Stream)/3:]...), cc.Stream...)
		dataB := append(append([]byte{}, cc.Stream[len(cc.Stream)/2:]...), cc.Stream[:len(cc.Stream)/2]...)
		a := &side{rd: &wrapReader{data: dataA, steps: cc.Chunks[1], pFrom: -1, pTo: -1}, name: "the reused WrappedParser"}
		if pv := call(func() { wpA.Reset(a.rd) }); pv != nil {
			return viol("panic", "WrappedParser.Reset", fmtPanic(pv))
		}
		a.wp = wpA
		psB, _ := NewParserFor(cc.Cfg)
		b := &side{rd: &wrapReader{data: dataB, steps: cc.Chunks[2], pFrom: -1, pTo: -1}, name: "the second WrappedParser"}
		b.wp = lz.Wrap(b.rd, psB.P)
		for turn := 0; !(a.done && b.done); turn++ {
			if turn > 2*(len(dataA)+len(dataB))+2000 {
				return viol("no-progress", "two WrappedParsers in turns", "the streams do not end")
			}
			s := a
			if turn%2 == 1 {
				s = b
			}
			if s.done {
				continue
			}
			poisonBlock(&s.blk)
			var n int
			var perr error
			if pv := call(func() { n, perr = s.wp.Parse(&s.blk, cc.Flags) }); pv != nil {
				return viol("panic", s.name+" (two WrappedParsers in turns)", fmtPanic(pv))
			}
			switch {
			case perr == io.EOF:
				s.done = true
				if !bytes.Equal(s.dec, s.rd.data) {
					return viol("eof-before-all-delivered", s.name+" (two WrappedParsers with the same configuration used in turns)", fmt.Sprintf("io.EOF after %d of %d bytes were delivered (common prefix %d)", len(s.dec), len(s.rd.data), commonPrefix(s.dec, s.rd.data)))
				}
			case perr != nil:
				return viol("foreign-error", s.name+" (two WrappedParsers in turns)", fmt.Sprintf("Parse returned %v", perr))
			default:
				nd, xerr := ref.Expand(s.dec, s.blk.Sequences, s.blk.Literals)
				if xerr != nil {
					return viol("unexpandable-block", s.name+" (two WrappedParsers in turns)", xerr.Error())
				}
				s.dec = nd
				handed := s.rd.data[:s.rd.pos]
				if n <= 0 || len(s.dec) > len(handed) || !bytes.Equal(s.dec, handed[:len(s.dec)]) {
					return viol("blocks-differ-from-reader-bytes", s.name+" (two WrappedParsers with the same configuration used in turns)", fmt.Sprintf("after %d bytes the expansion is not a prefix of the %d bytes its reader handed out (common prefix %d)", len(s.dec), len(handed), commonPrefix(s.dec, handed)))
				}
			}
		}
		st.Inc("wrapped_parser_pairs_used_in_turns")
	}
	// 3. seeded random fault plan
	{
		rd := &wrapReader{data: cc.Stream, steps: cc.Faulty, pFrom: -1, pTo: -1}
		if cc.Persist > 0 {
			rd.pFrom, rd.pTo = cc.Persist, cc.Persist+40
		}
		_, class, msg := runWrap(cc, rd, st)
		if class != "" {
			return viol(class, fmt.Sprintf("fault plan %+v persist=%d", cc.Faulty, cc.Persist), msg)
		}
		st.Inc("random_fault_plans")
		if rd.faults >= 256 {
			st.Inc("streams_with_more_than_256_reader_failures")
		}
		if len(cc.Stream) > 4<<20 {
			st.Inc("streams_of_more_than_4MiB")
		}
		if cc.Persist > 0 {
			st.Inc("persistent_failure_plans")
		}
	}
	// 4. enumeration of single and double fault placements
	if cc.Enum {
		ch := cc.Chunks[1]
		base, class, msg := runWrap(cc, &wrapReader{data: cc.Stream, steps: ch, pFrom: -1, pTo: -1}, st)
		if class != "" {
			return viol(class, "chunking 1", msg)
		}
		R := base.rcalls
		if R > 50 {
			R = 50
		}
		for i := 0; i < R; i++ {
			for f := 1; f <= 2; f++ {
				fault := map[int]int{i: f}
				_, class, msg := runWrap(cc, &wrapReader{data: cc.Stream, steps: ch, fault: fault, pFrom: -1, pTo: -1}, st)
				st.Inc("single_fault_placements")
				if class != "" {
					return viol(class, fmt.Sprintf("chunking 1 with fault %v (1: error without data, 2: error with data)", fault), msg)
				}
			}
		}
		if R <= 14 {
			for i := 0; i < R; i++ {
				for j := i + 1; j < R+2; j++ {
					for _, ff := range [][2]int{{1, 1}, {1, 2}, {2, 1}, {2, 2}} {
						fault := map[int]int{i: ff[0], j: ff[1]}
						_, class, msg := runWrap(cc, &wrapReader{data: cc.Stream, steps: ch, fault: fault, pFrom: -1, pTo: -1}, st)
						st.Inc("double_fault_placements")
						if class != "" {
							return viol(class, fmt.Sprintf("chunking 1 with faults %v", fault), msg)
						}
					}
				}
			}
		}
		st.Inc("streams_enumerated")
	}
	if len(refRes.blocks) > 0 {
		st.NonTrivial(c)
		st.Sample(c, 1)
	}
	return nil
}

func init() {
	core.Register(&c08prop{base{id: "C08", level: "fault_enumeration",
		rule:        "for every generated (configuration of one of the 7 parsers with ShrinkSize < BufferSize <= 200, input of length 0..5*BufferSize incl. exact multiples of BlockSize/BufferSize) the wrapped parser is run (1) with full reads (reference block sequence, EOF repeated 3 times), (2) under 4 chunkings (single bytes, random short reads, short reads mixed with (0,nil) reads, data returned together with io.EOF) and, for a quarter of the cases, under ten readers of other dynamic types from the standard library (bytes/strings readers, bufio, MultiReader of LimitReader and plain struct readers, iotest One-byte/Half/DataErr readers, TeeReader) whose block sequences must equal the reference; 'big' cases repeat this with buffers beyond 64 KiB and the default configuration on inputs of 300-700 kB, (3) under a seeded random multi-fault plan (errors with and without data, optionally a reader that fails persistently for 40 calls), and (4) for inputs <= 400 bytes ALL single fault placements over the first 50 reader calls x {error without data, error with data} and for <= 14 reader calls all double placements x 4 combinations; a recording reader decides what was handed out; non-trivial iff the stream produced at least one block; distinct = distinct concrete case",
		assumptions: []string{"a one-shot reader error that arrives together with data may be swallowed by Wrap (the property only constrains when an error may be returned)", "io.EOF is signalled by the reader only when its data is exhausted"},
		mandatory:   []string{"streams_completed", "chunkings_compared", "standard_library_readers_compared", "single_fault_placements", "double_fault_placements", "reader_errors_surfaced", "streams_longer_than_buffer", "streams_multiple_of_buffersize", "persistent_failure_plans", "streams_with_several_blocks", "streams_after_wrapped_reset", "streams_around_capacity_steps", "streams_with_more_than_256_reader_failures", "streams_of_more_than_4MiB", "wrapped_parser_pairs_used_in_turns"}}})
}
