package props

import (
	"fmt"
	"io"
	"math"
	"math/rand"

	"github.com/ulikunitz/lz"
	"verif/core"
	"verif/gen"
)

// ---------------------------------------------------------------- C16

// C16Case is either an arbitrary configuration for the acceptance clause or
// a boundary configuration with a history (direct and wrapped).
type C16Case struct {
	Cfg    gen.Cfg `json:"cfg"`
	Accept bool    `json:"accept,omitempty"`
	H      *PCase  `json:"h,omitempty"`
	WPlan  []RStep `json:"wplan,omitempty"`
	WFlags int     `json:"wflags,omitempty"`
}

type c16prop struct{ base }

// c16scale generates the scale scenarios for C16.
var c16scale = &histProp{scale: scaleAll, weights: HWeights{ParseNil: 1, Probe: 1}}

// KindCPU: the scale scenarios parse megabytes (7 s of CPU time measured for
// the most expensive one).
func (p *c16prop) KindCPU(kind, tier string) int {
	if class, _ := splitKind(kind); class == "scale" {
		return 180
	}
	return 0
}

func (p *c16prop) Plan(tier string, seed int64) []core.Segment {
	m := tierScale(tier, 40)
	segs := []core.Segment{{Kind: "corpus:accept", N: 3000}, {Kind: "accept", N: 50000 * m}}
	for _, t := range gen.ParserTypes {
		n := int64(3000)
		if t == "GSAP" || t == "OSAP" {
			n = 1500
		}
		lg := int64(8)
		if t == "GSAP" || t == "OSAP" {
			lg = 2
		}
		segs = append(segs, core.Segment{Kind: "corpus:hist:" + t, N: 300}, core.Segment{Kind: "hist:" + t, N: n * m},
			core.Segment{Kind: "mid:" + t, N: n / 4 * m}, core.Segment{Kind: "large:" + t, N: lg * tierScale(tier, 10), Chunk: 1},
			// the scale scenarios of the parser histories (scale.go): blocks and
			// buffers of megabytes, hundreds of calls of one kind in a row
			core.Segment{Kind: "scale:" + t, N: int64(len(scaleAll)) * tierScale(tier, 4), Chunk: 1})
	}
	return segs
}

var hostileInts = []int{0, 0, 0, 1, 1, 2, 3, 4, 5, 7, 8, 9, 12, 15, 16, 17, 23, 24, 25, 32, 63, 64, 128, 129, 255, 256, 273,
	1000, 1 << 16, 1<<16 + 1, 1 << 20, 1 << 24, 1<<31 - 1, 1 << 31, 1<<32 - 8, 1<<32 - 7, 1<<32 - 1, 1 << 32, 1 << 33,
	math.MaxInt64, math.MaxInt64 - 7, -1, -2, -8, math.MinInt64, math.MinInt64 + 1}

func hostileInt(r *rand.Rand) int {
	switch r.Intn(10) {
	case 0:
		return int(r.Uint64())
	case 1:
		return r.Intn(40)
	case 2:
		return -r.Intn(40)
	}
	return hostileInts[r.Intn(len(hostileInts))]
}

func arbitraryCfg(r *rand.Rand, typ string) gen.Cfg {
	c := gen.Cfg{Type: typ}
	// start from a valid small configuration in half of the cases so that
	// single hostile fields are tested against otherwise valid values
	if r.Intn(2) == 0 {
		c = gen.SmallCfg(r, typ, gen.Opts{AllowShrinkEqBuf: true})
	}
	fields := []*int{&c.ShrinkSize, &c.BufferSize, &c.WindowSize, &c.BlockSize}
	switch typ {
	case "HP", "BHP":
		fields = append(fields, &c.InputLen, &c.HashBits)
	case "BUP":
		fields = append(fields, &c.InputLen, &c.HashBits, &c.BucketSize)
	case "DHP", "BDHP":
		fields = append(fields, &c.InputLen1, &c.HashBits1, &c.InputLen2, &c.HashBits2)
	case "GSAP":
		fields = append(fields, &c.MinMatchLen)
	case "OSAP":
		fields = append(fields, &c.MinMatchLen, &c.MaxMatchLen)
		if r.Intn(6) == 0 {
			c.Cost = []string{"XZCost", "xzcost", "", "ZSTD", "XZCost "}[r.Intn(5)]
		}
	}
	n := 1 + r.Intn(3)
	if c.BufferSize == 0 {
		n = len(fields)
	}
	for i := 0; i < n; i++ {
		*fields[r.Intn(len(fields))] = hostileInt(r)
	}
	// keep the hash tables affordable: HashBits in (20, 24] only rarely
	for _, hb := range []*int{&c.HashBits, &c.HashBits1, &c.HashBits2} {
		if *hb > 16 && *hb <= 24 && r.Intn(50) != 0 {
			*hb = 1 + r.Intn(12)
		}
	}
	return c
}

// tableBytes estimates the memory NewParser allocates for cfg (defaults
// completed by the harness' own reading of the documentation).
func tableBytes(c gen.Cfg) float64 {
	hb := func(bits, def int) float64 {
		if bits == 0 {
			bits = def
		}
		if bits < 0 || bits > 24 {
			return 0 // rejected by Verify
		}
		return math.Pow(2, float64(bits)) * 8
	}
	switch c.Type {
	case "HP", "BHP":
		return hb(c.HashBits, 18)
	case "DHP", "BDHP":
		return hb(c.HashBits1, 18) + hb(c.HashBits2, 18)
	case "BUP":
		bs := c.BucketSize
		if bs == 0 {
			bs = 10
		}
		if bs < 0 || bs > 128 {
			return 0
		}
		return hb(c.HashBits, 12) * float64(bs+1)
	}
	return 0
}

func boundaryCfg(r *rand.Rand, typ string) gen.Cfg {
	c := gen.SmallCfg(r, typ, gen.Opts{})
	switch r.Intn(11) {
	case 10:
		// only runs if the library accepts it (the wrapped parser cannot
		// make room in a full buffer then)
		c.ShrinkSize = c.BufferSize
	case 0:
		c.ShrinkSize = c.BufferSize - 1
	case 1: // BufferSize smaller than the hash input length
		c.BufferSize = 1 + r.Intn(7)
		c.ShrinkSize = r.Intn(c.BufferSize)
	case 2:
		c.WindowSize = 1
		if typ == "GSAP" {
			c.WindowSize = c.MinMatchLen
		}
	case 3:
		c.BlockSize = 1
	case 4: // everything 1
		c.BufferSize, c.ShrinkSize, c.BlockSize, c.WindowSize = 1, 0, 1, 1
		if typ == "GSAP" {
			c.WindowSize = c.MinMatchLen
		}
	case 5: // maximal hash bits for the input length
		switch typ {
		case "HP", "BHP":
			c.InputLen, c.HashBits = 2, 16
		case "BUP":
			c.InputLen, c.HashBits, c.BucketSize = 2, 16, 1+r.Intn(3)
		case "DHP", "BDHP":
			c.InputLen1, c.HashBits1, c.InputLen2, c.HashBits2 = 2, 16, 3, 17
		}
	case 6:
		if typ == "OSAP" {
			c.MaxMatchLen = c.MinMatchLen
		}
		if typ == "GSAP" {
			c.MinMatchLen = c.WindowSize
		}
	case 7: // huge match length limits
		if typ == "OSAP" {
			c.MinMatchLen = []int{1 << 31, 1 << 33, math.MaxInt64 - 1, 300, 2}[r.Intn(5)]
			c.MaxMatchLen = []int{c.MinMatchLen, math.MaxInt64}[r.Intn(2)]
		}
		if typ == "GSAP" {
			c.MinMatchLen = 2 + r.Intn(60)
			if c.WindowSize < c.MinMatchLen {
				c.WindowSize = c.MinMatchLen
			}
		}
	case 8: // huge window / block
		c.WindowSize = []int{1<<31 - 1, 1 << 20, 1<<32 - 8}[r.Intn(3)]
		if typ == "GSAP" && c.WindowSize > 1<<31-1 {
			c.WindowSize = 1<<31 - 1
		}
		c.BlockSize = []int{1 << 20, 1<<32 - 8, 1}[r.Intn(3)]
	}
	return c
}

func (p *c16prop) Gen(kind string, idx int64, seed int64, tier string) core.Case {
	s := seed
	k := kind
	if len(kind) > 7 && kind[:7] == "corpus:" {
		s, k = 0, kind[7:]
	}
	r := core.Rand(s, p.id, kind, idx)
	var cc C16Case
	switch {
	case k == "accept":
		typ := gen.ParserTypes[int(idx)%len(gen.ParserTypes)]
		cc = C16Case{Cfg: arbitraryCfg(r, typ), Accept: true}
	default:
		class, typ := splitKind(k)
		w := HWeights{Write: 16, ReadFrom: 12, Parse: 26, ParseNTL: 10, ParseNil: 8, Shrink: 12, Reset: 2, ResetData: 6, Probe: 8, WParse: 8, Faults: true}
		var c gen.Cfg
		var pc PCase
		if class == "scale" {
			pc = c16scale.genScale(r, typ, idx, gen.Opts{})
			pc.Cfg.TameBig()
			c = pc.Cfg
		} else if class == "large" {
			// buffers beyond 64 KiB and the zero (default) configuration,
			// refilled by readers that offer more than 64 KiB at once
			c = gen.SmallCfg(r, typ, gen.Opts{})
			c.BufferSize = []int{65000, 65536, 65537, 100000, 200000, 0, 0}[idx%7]
			if idx%7 == 2 || r.Intn(4) == 0 {
				// every size around the first capacity step of ReadFrom
				c.BufferSize = 1<<16 + r.Intn(19) - 9
			}
			c.ShrinkSize = 0
			c.WindowSize = []int{0, 32768, 65536, 1 << 20}[r.Intn(4)]
			c.BlockSize = []int{0, 4096, 65536, 100000}[r.Intn(4)]
			if typ == "GSAP" || typ == "OSAP" {
				if c.BufferSize == 0 {
					c.BufferSize = 1 << 17
				}
				if c.WindowSize == 0 || c.WindowSize > 1<<17 {
					c.WindowSize = 1 << 17
				}
			}
			c.TameBig()
			_, stream := gen.Bytes(r, 300000+r.Intn(200000), c.Hint())
			ops := []POp{{K: "write", A: 0, B: 25000}, {K: "parse"}, {K: "parse"}, {K: "parse"}, {K: "parse"}, {K: "parse"}, {K: "parse"}, {K: "parse"}, {K: "parse"}, {K: "shrink"},
				{K: "readfrom", A: 1, B: 10}, {K: "parse"}, {K: "parse", A: 1}, {K: "shrink"}, {K: "readfrom", A: 0, B: 70000}, {K: "parse"}, {K: "readfrom", A: 1, B: 0}}
			for i := 0; i < 12; i++ {
				ops = append(ops, POp{K: "parse", A: r.Intn(2)})
			}
			if r.Intn(2) == 0 {
				// one big read first: everything the buffer takes at once
				ops = append([]POp{{K: "readfrom", A: 1, B: 10, Steps: []RStep{{N: 1 << 20, Err: r.Intn(3)}}}, {K: "parse"}, {K: "parse", A: 1}, {K: "shrink"}}, ops...)
			}
			pc = PCase{Cfg: c, Stream: stream, Ops: ops}
		} else if class == "mid" {
			// buffers beyond the first allocation sizes of the buffer
			c = gen.SmallCfg(r, typ, gen.Opts{})
			c.BufferSize = 1030 + r.Intn(3000)
			c.ShrinkSize = r.Intn(c.BufferSize)
			c.BlockSize = 1 + r.Intn(700)
			if typ == "GSAP" && c.WindowSize < c.MinMatchLen {
				c.WindowSize = c.MinMatchLen
			}
			_, stream := gen.Bytes(r, 3000+r.Intn(6000), c.Hint())
			pc = PCase{Cfg: c, Stream: stream, Ops: GenOps(r, 40+r.Intn(40), w)}
			for i := range pc.Ops {
				if (pc.Ops[i].K == "write" || pc.Ops[i].K == "readfrom") && pc.Ops[i].A == 0 {
					pc.Ops[i].B = 1 + r.Intn(700)
				}
			}
		} else {
			c = boundaryCfg(r, typ)
			n := 200 + r.Intn(900)
			if typ == "GSAP" || typ == "OSAP" {
				// every refill re-sorts the buffer
				n = 100 + r.Intn(300)
			}
			fam, stream := gen.Bytes(r, n, c.Hint())
			pc = PCase{Cfg: c, Family: fam, Stream: stream, Ops: GenOps(r, 30+r.Intn(60), w)}
		}
		cc = C16Case{Cfg: c, H: &pc, WPlan: GenReadPlan(r, true), WFlags: r.Intn(2)}
	}
	return core.MkCase(p.id, kind, idx, seed, tier, cc)
}

type c16obs struct {
	st *core.Stats
	cr commonReach
}

func (o *c16obs) Observe(ev *PEvent, ps *PState) (string, string) {
	if ev.Panic != nil {
		return "panic", fmt.Sprintf("%s panics: %v", ev.Op.K, ev.Panic)
	}
	o.cr.observe(ev, ps)
	o.st.Inc("calls_on_accepted_configs")
	switch ev.Op.K {
	case "parse":
		if ev.Err != nil && ev.Err != lz.ErrEmptyBuffer {
			return "undocumented-error", fmt.Sprintf("Parse returned %v", ev.Err)
		}
		if ev.Err == nil && ev.N <= 0 {
			return "no-progress", fmt.Sprintf("Parse returned n=%d with nil error", ev.N)
		}
		if ev.Err == lz.ErrEmptyBuffer && ev.PreFed-ev.PreW > 0 {
			return "spurious-error", fmt.Sprintf("Parse returned ErrEmptyBuffer with %d unparsed bytes", ev.PreFed-ev.PreW)
		}
	case "write":
		if ev.Err != nil && ev.Err != lz.ErrFullBuffer {
			return "undocumented-error", fmt.Sprintf("Write returned %v", ev.Err)
		}
		if ev.Err == lz.ErrFullBuffer && int64(ps.BufferSize)-(ev.PreFed-ev.PreOff) >= int64(len(ev.Given)) {
			return "spurious-error", fmt.Sprintf("Write of %d bytes returned ErrFullBuffer with %d bytes free", len(ev.Given), int64(ps.BufferSize)-(ev.PreFed-ev.PreOff))
		}
	case "readfrom":
		if ev.Err != nil && ev.Err != lz.ErrFullBuffer && ev.Err != io.EOF && ev.Err != ErrInjected {
			return "undocumented-error", fmt.Sprintf("ReadFrom returned %v", ev.Err)
		}
		if ev.Err == ErrInjected && ev.Reader.nInj == 0 || ev.Err == io.EOF && ev.Reader.nEOF == 0 {
			return "spurious-error", fmt.Sprintf("ReadFrom returned %v, which the reader never returned", ev.Err)
		}
	case "wparse":
		// a wrapped Parse may only report io.EOF or the reader's own error,
		// and only if the reader returned it during this call
		rd := ev.Reader
		switch ev.Err {
		case nil:
			if ev.N <= 0 {
				return "no-progress", fmt.Sprintf("wrapped Parse returned n=%d with nil error", ev.N)
			}
		case io.EOF:
			if rd.nEOF == 0 {
				return "spurious-error", "wrapped Parse returned io.EOF, which the reader never returned"
			}
		case ErrInjected:
			if rd.nInj == 0 {
				return "spurious-error", "wrapped Parse returned an error the reader never returned"
			}
		default:
			return "undocumented-error", fmt.Sprintf("wrapped Parse returned %v", ev.Err)
		}
		o.st.Inc("wrapped_parse_calls_in_histories")
	case "reset":
		if ev.Wrapped {
			// WrappedParser.Reset -> Reset(nil)
			if ev.Err != nil {
				return "spurious-error", fmt.Sprintf("Reset(nil) returned %v", ev.Err)
			}
			break
		}
		if (ev.Err != nil) != ev.ResetOversize {
			return "spurious-error", fmt.Sprintf("Reset with %d bytes (BufferSize %d) returned %v", len(ev.Given), ps.BufferSize, ev.Err)
		}
	case "probe":
		if ev.Err != nil && ev.Err != lz.ErrOutOfBuffer && ev.Err != lz.ErrEndOfBuffer {
			return "undocumented-error", fmt.Sprintf("probe returned %v", ev.Err)
		}
	}
	return "", ""
}

func (o *c16obs) Finish(ps *PState) bool { return true }

func safeVerify(pc lz.ParserConfig) (err error, pv any) {
	pv = call(func() {
		e := pc.Clone()
		e.SetDefaults()
		err = e.Verify()
	})
	return
}

func (p *c16prop) Run(c *core.Case, st *core.Stats) []core.Violation {
	cc, err := decode[C16Case](c)
	if err != nil {
		return []core.Violation{core.V(c, "harness", "bad case: %v", err)}
	}
	pc := cc.Cfg.Lz()
	verr, pv := safeVerify(pc)
	if pv != nil {
		return []core.Violation{core.V(c, "panic-verify", "Clone/SetDefaults/Verify panics for %+v: %v", cc.Cfg, pv)}
	}
	// Verify on the raw value must not panic either
	if pv := call(func() { _ = cc.Cfg.Lz().Verify() }); pv != nil {
		return []core.Violation{core.V(c, "panic-verify", "Verify panics for %+v: %v", cc.Cfg, pv)}
	}
	if cc.Accept {
		st.Inc("configs_checked")
		if verr == nil {
			st.Inc("configs_valid")
		} else {
			st.Inc("configs_invalid")
		}
		if tableBytes(cc.Cfg) > 300e6 {
			st.Inc("newparser_skipped_for_memory")
			return nil
		}
		var parser lz.Parser
		var nerr error
		if pv := call(func() { parser, nerr = pc.NewParser() }); pv != nil {
			return []core.Violation{core.V(c, "panic-newparser", "NewParser panics for %+v: %v", cc.Cfg, pv)}
		}
		if (nerr == nil) != (verr == nil) {
			return []core.Violation{core.V(c, "acceptance-mismatch", "NewParser err=%v but Verify of the defaults-completed configuration returns %v for %+v", nerr, verr, cc.Cfg)}
		}
		if nerr == nil && parser == nil {
			return []core.Violation{core.V(c, "nil-parser", "NewParser returned nil, nil for %+v", cc.Cfg)}
		}
		st.NonTrivial(c)
		if verr == nil {
			st.Sample(c, 2)
			// an accepted configuration must survive a short use
			data := []byte("abcabcabcabcabcabc-abcabcabcabc")
			var perr error
			if pv := call(func() {
				parser.Write(data)
				var blk lz.Block
				for i := 0; i < 100; i++ {
					if _, perr = parser.Parse(&blk, i&1); perr != nil {
						break
					}
				}
				parser.Shrink()
				parser.Reset(nil)
			}); pv != nil {
				return []core.Violation{core.V(c, "panic", "accepted configuration %+v panics in first use: %v", cc.Cfg, pv)}
			}
			if perr != lz.ErrEmptyBuffer {
				return []core.Violation{core.V(c, "no-progress", "accepted configuration %+v: Parse does not drain %d bytes in 100 calls (err=%v)", cc.Cfg, len(data), perr)}
			}
			st.Inc("accepted_configs_used")
		}
		return nil
	}
	// ---- history on an accepted boundary configuration
	ps, nerr := NewParserFor(cc.Cfg)
	if (nerr == nil) != (verr == nil) {
		return []core.Violation{core.V(c, "acceptance-mismatch", "NewParser err=%v but Verify returns %v for %+v", nerr, verr, cc.Cfg)}
	}
	if nerr != nil {
		st.Inc("config_rejected")
		return nil
	}
	obs := &c16obs{st: st, cr: commonReach{st: st}}
	class, msg, _ := RunHistory(ps, cc.H, &transObserver{obs, st})
	if class != "" {
		return []core.Violation{core.V(c, class, "%s cfg=%+v: %s", cc.Cfg.Type, cc.Cfg, msg)}
	}
	st.Inc("histories")
	// ---- wrapped use
	ps2, _ := NewParserFor(cc.Cfg)
	if ps2 != nil {
		rd := &wrapReader{data: cc.H.Stream, steps: cc.WPlan, pFrom: -1, pTo: -1}
		wp := lz.Wrap(rd, ps2.P)
		total := 0
		for i := 0; ; i++ {
			var blk lz.Block
			var n int
			var perr error
			if pv := call(func() { n, perr = wp.Parse(&blk, cc.WFlags) }); pv != nil {
				return []core.Violation{core.V(c, "panic", "%s cfg=%+v: wrapped Parse panics: %v", cc.Cfg.Type, cc.Cfg, pv)}
			}
			st.Inc("wrapped_calls")
			total += n
			if perr == io.EOF {
				break
			}
			if perr != nil && perr != ErrInjected {
				return []core.Violation{core.V(c, "undocumented-error", "%s cfg=%+v: wrapped Parse returned %v", cc.Cfg.Type, cc.Cfg, perr)}
			}
			if i > len(cc.H.Stream)+len(cc.WPlan)+64 {
				return []core.Violation{core.V(c, "no-progress", "%s cfg=%+v: wrapped parser does not finish %d bytes in %d calls", cc.Cfg.Type, cc.Cfg, len(cc.H.Stream), i)}
			}
		}
		st.Inc("wrapped_streams")
	}
	st.NonTrivial(c)
	return nil
}

func init() {
	core.Register(&c16prop{base{id: "C16", level: "exploration",
		rule:        "(a) acceptance: configurations of all 7 types with arbitrary field values (0, small, 2^k, +-int64 extremes, random 64-bit; single hostile fields in otherwise valid configurations and fully hostile ones): NewParser succeeds iff Verify of the harness' Clone+SetDefaults copy succeeds, nothing panics, an accepted configuration survives a first use (NewParser is skipped, Verify still checked, when the hash tables would exceed 300 MB); (b) boundary configurations (ShrinkSize = BufferSize-1, BufferSize < InputLen, WindowSize 1, BlockSize 1, all sizes 1, maximal HashBits, MinMatchLen = MaxMatchLen, huge match length limits, huge window/block) and mid-size buffers (1-4 kB, beyond the first allocation sizes) are driven through histories of Write/ReadFrom with faults/Parse (all flags, nil)/Shrink/Reset/probes and through a wrapped parser with a faulty reader: recovered panics, process-fatal errors, CPU-budget exhaustion and errors outside the documented set are violations; non-trivial = every executed case; distinct = distinct concrete case",
		assumptions: []string{"memory: table sizes above 300 MB are not instantiated", "the documented error set is ErrEmptyBuffer (Parse), ErrFullBuffer (Write/ReadFrom), Reset's error iff len(data) > BufferSize, io.EOF / the reader's error (ReadFrom, wrapped Parse), ErrOutOfBuffer/ErrEndOfBuffer (ReadAt/ByteAt)"},
		mandatory:   []string{"configs_valid", "configs_invalid", "accepted_configs_used", "histories", "wrapped_streams", "calls_on_accepted_configs", "shrink_discarding"}}})
}
