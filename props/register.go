package props
