package props

import (
	"encoding/json"
	"fmt"
	"io"

	"github.com/ulikunitz/lz"
	"verif/core"
)

// base carries the static description of a monitor.
type base struct {
	id          string
	level       string
	rule        string
	assumptions []string
	mandatory   []string
	expected    []string
}

func (b *base) ID() string                     { return b.id }
func (b *base) Level() string                  { return b.level }
func (b *base) Rule() string                   { return b.rule }
func (b *base) Assumptions() []string          { return b.assumptions }
func (b *base) Mandatory(tier string) []string { return b.mandatory }
func (b *base) Expected(tier string) []string  { return b.expected }

func decode[T any](c *core.Case) (*T, error) {
	var x T
	if err := json.Unmarshal(c.Data, &x); err != nil {
		return nil, err
	}
	return &x, nil
}

func errName(err error) string {
	switch err {
	case nil:
		return "nil"
	case lz.ErrEmptyBuffer:
		return "ErrEmptyBuffer"
	case lz.ErrFullBuffer:
		return "ErrFullBuffer"
	case lz.ErrOutOfBuffer:
		return "ErrOutOfBuffer"
	case lz.ErrEndOfBuffer:
		return "ErrEndOfBuffer"
	case io.EOF:
		return "EOF"
	case ErrInjected:
		return "injected"
	}
	return "other(" + err.Error() + ")"
}

// stateClass abstracts the buffer state before an operation.
func stateClass(ev *PEvent, st *PState) string {
	unp := ev.PreFed - ev.PreW
	var u string
	switch {
	case unp == 0:
		u = "unparsed=0"
	case unp < int64(st.BlockSize):
		u = "unparsed<block"
	case unp == int64(st.BlockSize):
		u = "unparsed=block"
	default:
		u = "unparsed>block"
	}
	l := ev.PreFed - ev.PreOff
	var f string
	switch {
	case l == 0:
		f = "empty"
	case l >= int64(st.BufferSize):
		f = "full"
	default:
		f = "partial"
	}
	sh := "off=0"
	if ev.PreOff > 0 {
		sh = "off>0"
	}
	return u + "," + f + "," + sh
}

// transition folds an executed operation into (state, operation, outcome).
func transition(ev *PEvent, st *PState, stats *core.Stats) {
	var op, out string
	switch ev.Op.K {
	case "write", "readfrom":
		op = ev.Op.K
		switch {
		case ev.N == 0:
			out = "n=0," + errName(ev.Err)
		default:
			out = "n>0," + errName(ev.Err)
		}
	case "parse":
		switch {
		case ev.Nil:
			op = "Parse(nil)"
		case ev.Flags&lz.NoTrailingLiterals != 0:
			op = "Parse/NTL"
		default:
			op = "Parse/0"
		}
		switch {
		case ev.Err != nil:
			out = errName(ev.Err)
		case ev.Nil:
			out = "skipped"
		case len(ev.Blk.Sequences) == 0:
			out = "literal block"
		default:
			out = "block with sequences"
			var sl int64
			for _, s := range ev.Blk.Sequences {
				sl += int64(s.LitLen)
			}
			if sl < int64(len(ev.Blk.Literals)) {
				out += "+trailing"
			}
		}
	case "shrink":
		op = "Shrink"
		if ev.Delta > 0 {
			out = "delta>0"
		} else {
			out = "delta=0"
		}
	case "reset":
		op = fmt.Sprintf("Reset/mode%d", ev.Op.A)
		out = errName(ev.Err)
		if ev.Err != nil && out != "nil" {
			out = "error"
		}
	case "wparse":
		op = "Wrap.Parse"
		if ev.Nil {
			op = "Wrap.Parse(nil)"
		}
		out = errName(ev.Err)
		if ev.Err == nil {
			out = "block"
		}
		out += fmt.Sprintf(",%d inner calls", ev.InnerCalls)
	case "other":
		op, out = "other instance used", "ok"
	case "probe":
		op = []string{"ReadAt", "ByteAt", "PeekAt"}[ev.Op.C&3%3]
		out = errName(ev.Err)
	}
	if ev.Panic != nil {
		out = "panic"
	}
	if ev.Wrapped {
		op += " (called by Wrap)"
	}
	stats.Tr(stateClass(ev, st), op, out)
}

// fmtPanic renders a recovered value.
func fmtPanic(p any) string { return fmt.Sprintf("panic: %v", p) }

// tierScale returns the multiplier of the case counts for a tier.
func tierScale(tier string, thorough int64) int64 {
	if tier == "thorough" {
		return thorough
	}
	return 1
}
