package props

import (
	"bytes"
	"fmt"
	"io"
	"math/rand"
	"sync"

	"github.com/ulikunitz/lz"
	"verif/core"
	"verif/gen"
)

// ---------------------------------------------------------------- C13

// C13Case: H1 runs on the used parser only; then both the used and a fresh
// parser execute Reset (first op of H2) and the rest of H2. For kind "conc"
// Conc holds independent histories that run concurrently.
type C13Case struct {
	Cfg  gen.Cfg `json:"cfg"`
	S1   []byte  `json:"s1,omitempty"`
	H1   []POp   `json:"h1,omitempty"`
	S2   []byte  `json:"s2,omitempty"`
	H2   []POp   `json:"h2,omitempty"`
	Conc []PCase `json:"conc,omitempty"`
	Reps int     `json:"reps,omitempty"`
	// Lives (kind manyresets): histories that each start with a Reset, run
	// one after the other on the parser that has executed H1; every one of
	// them is compared with the same history on a new parser.
	Lives []C13Life `json:"lives,omitempty"`
}

// C13Life is one life of a parser that is reset again and again.
type C13Life struct {
	S   []byte `json:"s"`
	Ops []POp  `json:"ops"`
}

type c13prop struct{ base }

func (p *c13prop) CaseCPU(tier string) int { return 120 }

// KindCPU: the concurrent rounds run 35 instances three times in the race
// build (about 20 s of CPU time on the unchanged tree, the byte families of
// some seeds cost twice as much).
func (p *c13prop) KindCPU(kind, tier string) int {
	if kind == "conc" {
		return 600
	}
	return 60
}

func (p *c13prop) Plan(tier string, seed int64) []core.Segment {
	m := tierScale(tier, 30)
	var segs []core.Segment
	for _, t := range gen.ParserTypes {
		segs = append(segs, core.Segment{Kind: "corpus:reset:" + t, N: 150}, core.Segment{Kind: "reset:" + t, N: 1800 * m}, core.Segment{Kind: "twin:" + t, N: 300 * m},
			core.Segment{Kind: "zerostart:" + t, N: 1500 * m})
		if t != "GSAP" && t != "OSAP" {
			segs = append(segs, core.Segment{Kind: "margin:" + t, N: 1500 * m})
		}
		segs = append(segs, core.Segment{Kind: "wrapreset:" + t, N: 600 * m})
		if t != "GSAP" && t != "OSAP" {
			segs = append(segs, core.Segment{Kind: "ntlreset:" + t, N: 1500 * m})
			// hash tables of 2^19 .. 2^22 entries
			segs = append(segs, core.Segment{Kind: "bighash:" + t, N: 8 * tierScale(tier, 6), Chunk: 2})
		}
		// hundreds of Resets of one parser object
		segs = append(segs, core.Segment{Kind: "manyresets:" + t, N: 6 * tierScale(tier, 6), Chunk: 2})
		// a WrappedParser reused after a first stream of 0.3-1 MiB
		segs = append(segs, core.Segment{Kind: "bigwrapreset:" + t, N: 4 * tierScale(tier, 6), Chunk: 1})
		// the caller refills the slice the parser uses directly and hands it
		// over again
		segs = append(segs, core.Segment{Kind: "refill:" + t, N: 600 * m})
		// the old life ends and the new one begins with a reader that has
		// nothing for 50-99 calls in a row
		segs = append(segs, core.Segment{Kind: "stallreset:" + t, N: 200 * m})
		// the old life worked in a caller slice with a capacity of several
		// BufferSize; the new one is filled by readers that offer too much
		segs = append(segs, core.Segment{Kind: "hugecap:" + t, N: 300 * m})
	}
	// (two cases also in the quick tier: whether the race detector gets to
	// see two unsynchronised accesses depends on the configurations drawn and
	// on the schedule; measured on a seeded shared scratch slice: 3 of 4 runs
	// of one case report it)
	reps := int64(2)
	if tier == "thorough" {
		reps = 10
	}
	segs = append(segs, core.Segment{Kind: "conc", N: reps, Chunk: 1})
	return segs
}

func (p *c13prop) Gen(kind string, idx int64, seed int64, tier string) core.Case {
	s := seed
	k := kind
	if len(kind) > 7 && kind[:7] == "corpus:" {
		s, k = 0, kind[7:]
	}
	r := core.Rand(s, p.id, kind, idx)
	var cc C13Case
	w := HWeights{Write: 18, ReadFrom: 8, Parse: 34, ParseNTL: 10, ParseNil: 3, Shrink: 12, Reset: 0, ResetData: 0, Probe: 4, WParse: 6}
	class, typ := splitKind(k)
	if k == "conc" {
		class = "conc"
	}
	switch class {
	case "conc":
		// 32 goroutines, distinct parser instances (every type several
		// times), small buffers and long streams: many overlapping Shrinks
		for g := 0; g < 32; g++ {
			t := gen.ParserTypes[g%len(gen.ParserTypes)]
			c := gen.SmallCfg(r, t, gen.Opts{MaxBuf: 200, MinBuf: 16})
			n := 20000
			if t == "GSAP" || t == "OSAP" {
				n = 3000
			}
			_, stream := gen.Bytes(r, n, c.Hint())
			ops := GenOps(r, 400, HWeights{Write: 22, ReadFrom: 6, Parse: 40, ParseNTL: 8, Shrink: 20})
			cc.Conc = append(cc.Conc, PCase{Cfg: c, Stream: stream, Ops: ops})
		}
		// a few instances with buffers beyond 64 KiB (large temporary slices
		// inside the suffix array parsers, several of them at the same time)
		for g := 0; g < 3; g++ {
			t := []string{"OSAP", "GSAP", "OSAP"}[g]
			c := gen.SmallCfg(r, t, gen.Opts{})
			// every refill adds 10 kB to more than 64 Ki buffered bytes: the
			// instances rebuild their large temporary arrays again and again,
			// all at the same time
			c.BufferSize = 80000 + r.Intn(100)
			c.ShrinkSize = c.BufferSize - 10000
			c.WindowSize = 1 << 16
			c.BlockSize = 16384
			c.MaxMatchLen = 273
			c.MinMatchLen = 3
			// (source text and random bytes: runs of one byte cost the
			// optimizing parser ten times as much, which only varies the
			// CPU time of the case from seed to seed)
			stream := gen.Family(r, []string{"text", "rand16", "rand256"}[g], 100000, c.Hint())
			ops := []POp{}
			for i := 0; i < 4; i++ {
				ops = append(ops, POp{K: "readfrom", A: 1, B: 0}, POp{K: "parse"}, POp{K: "parse"}, POp{K: "parse"}, POp{K: "parse"}, POp{K: "parse"}, POp{K: "parse"}, POp{K: "shrink"})
			}
			cc.Conc = append(cc.Conc, PCase{Cfg: c, Stream: stream, Ops: ops})
		}
		cc.Reps = 3
	default:
		c := gen.SmallCfg(r, typ, gen.Opts{FewHashBits: r.Intn(2) == 0})
		// long hash inputs on small alphabets: stale entries verify against
		// new data
		if r.Intn(2) == 0 {
			switch typ {
			case "HP", "BHP", "BUP":
				c.InputLen = 4 + r.Intn(5)
				c.HashBits = 1 + r.Intn(6)
			case "DHP", "BDHP":
				c.InputLen1 = 3 + r.Intn(4)
				c.InputLen2 = c.InputLen1 + 1 + r.Intn(8-c.InputLen1)
				c.HashBits1, c.HashBits2 = 1+r.Intn(6), 1+r.Intn(6)
			}
		}
		fam := []string{"rand2", "rand2", "rand3", "periodic", "lzsynth", "tworuns", "text"}[r.Intn(7)]
		cc.Cfg = c
		cc.S1 = gen.Family(r, fam, 200+r.Intn(1200), c.Hint())
		cc.S2 = gen.Family(r, fam, 100+r.Intn(800), c.Hint())
		if r.Intn(4) == 0 {
			// 0x00 at buffer position 0 is indistinguishable from an empty
			// table entry: old data starting with a zero run whose length is
			// around the hash input / bucket geometry, new data over {0, x}
			il := c.InputLen + c.InputLen1
			k := c.BucketSize + il - 1 + r.Intn(5) - 2
			if r.Intn(3) == 0 || k < 1 {
				k = 1 + r.Intn(20)
			}
			for i := 0; i < k && i < len(cc.S1); i++ {
				cc.S1[i] = 0
			}
			if k < len(cc.S1) {
				cc.S1[k] = 'x'
			}
			for i := range cc.S2 {
				if r.Intn(3) > 0 {
					cc.S2[i] = 0
				} else {
					cc.S2[i] = 'x' + byte(r.Intn(2))
				}
			}
		}
		if class == "reset" {
			cc.H1 = GenOps(r, 10+r.Intn(60), w)
		}
		if class == "bighash" || class == "manyresets" {
			return core.MkCase(p.id, kind, idx, seed, tier, genC13Scale(r, class, typ, c))
		}
		if class == "ntlreset" {
			// the last Parse of the previous life uses NoTrailingLiterals:
			// the parser has hashed positions behind the parse position it
			// reports; hash inputs longer than three bytes on a two-letter
			// alphabet so that entries of the old data verify partly against
			// the new data
			switch typ {
			case "HP", "BHP", "BUP":
				c.InputLen = 4 + r.Intn(5)
				c.HashBits = 6 + r.Intn(8)
			default:
				c.InputLen1 = 3 + r.Intn(3)
				c.InputLen2 = c.InputLen1 + 1 + r.Intn(8-c.InputLen1)
				c.HashBits1, c.HashBits2 = 6+r.Intn(8), 6+r.Intn(8)
			}
			if c.BufferSize < 64 {
				c.BufferSize = 64 + r.Intn(200)
				c.ShrinkSize = r.Intn(c.BufferSize)
			}
			c.BlockSize = 8 + r.Intn(60)
			if c.WindowSize < 16 {
				c.WindowSize = 16 + r.Intn(200)
			}
			cc.Cfg = c
			cc.S1 = gen.Family(r, []string{"rand2", "rand2", "rand3", "lzsynth"}[r.Intn(4)], 400, c.Hint())
			cc.S2 = gen.Family(r, []string{"rand2", "rand2", "rand3"}[r.Intn(3)], 400, c.Hint())
			cc.H1 = nil
			for i, n := 0, r.Intn(3); i < n; i++ {
				cc.H1 = append(cc.H1, POp{K: "write", B: 1 + r.Intn(c.BlockSize)}, POp{K: "parse"})
			}
			cc.H1 = append(cc.H1, POp{K: "write", B: 4 + r.Intn(2*c.BlockSize)}, POp{K: "parse", A: 1})
			reset := POp{K: "reset", A: 0}
			if r.Intn(2) == 0 {
				reset = POp{K: "reset", A: 1 + r.Intn(2), B: r.Intn(60), C: r.Intn(20)}
			}
			cc.H2 = []POp{reset, {K: "write", B: 20 + r.Intn(100)}}
			for i := 0; i < 8; i++ {
				cc.H2 = append(cc.H2, POp{K: "parse", A: r.Intn(2)})
			}
			cc.H2 = append(cc.H2, POp{K: "write", B: 20 + r.Intn(100)}, POp{K: "parse"}, POp{K: "parse"}, POp{K: "parse"})
			return core.MkCase(p.id, kind, idx, seed, tier, cc)
		}
		if class == "refill" {
			// old life: Reset(x) with a slice that has the margin, parsed; new
			// life: x refilled with other bytes of the same (or a smaller)
			// length and handed over again
			if c.BufferSize < 64 {
				c.BufferSize = 64 + r.Intn(400)
				c.ShrinkSize = r.Intn(c.BufferSize)
			}
			cc.Cfg = c
			l1 := 20 + r.Intn(c.BufferSize-20)
			extra := 1 + 3*r.Intn(7)
			fam := []string{"rand2", "rand3", "tworuns", "text", "lzsynth"}[r.Intn(5)]
			cc.S1 = gen.Family(r, fam, l1+200, c.Hint())
			cc.S2 = gen.Family(r, fam, l1+200, c.Hint())
			cc.H1 = []POp{{K: "reset", A: 2, B: l1, C: extra}}
			for i := 0; i < 2+l1/(c.BlockSize+1) && i < 40; i++ {
				cc.H1 = append(cc.H1, POp{K: "parse", A: r.Intn(2)})
			}
			l2 := l1
			if r.Intn(3) == 0 {
				l2 = 1 + r.Intn(l1)
			}
			cc.H2 = []POp{{K: "reset", A: 6, B: l2, C: extra}}
			for i := 0; i < 2+l2/(c.BlockSize+1) && i < 40; i++ {
				cc.H2 = append(cc.H2, POp{K: "parse", A: r.Intn(2)})
			}
			cc.H2 = append(cc.H2, POp{K: "write", B: 1 + r.Intn(60)}, POp{K: "parse"}, POp{K: "parse"})
			return core.MkCase(p.id, kind, idx, seed, tier, cc)
		}
		if class == "hugecap" {
			// old life: Reset(x) with a slice whose capacity is several times
			// BufferSize (the buffer works in it directly); new life: Reset
			// without data or with a short slice, then readers that offer more
			// than fits: the reused parser must take exactly what a new one
			// takes
			if c.BufferSize < 32 || c.BufferSize > 4096 {
				c.BufferSize = 32 + r.Intn(400)
				c.ShrinkSize = r.Intn(c.BufferSize)
			}
			cc.Cfg = c
			l1 := r.Intn(c.BufferSize)
			cc.S2 = gen.Family(r, fam, 8*c.BufferSize+800, c.Hint())
			cc.H1 = []POp{{K: "reset", A: 3, B: l1}}
			for i, n := 0, r.Intn(4); i < n; i++ {
				cc.H1 = append(cc.H1, POp{K: "parse", A: r.Intn(2)})
			}
			if r.Intn(3) == 0 {
				cc.H1 = append(cc.H1, POp{K: "shrink"})
			}
			reset := POp{K: "reset", A: 0}
			if r.Intn(3) == 0 {
				reset = POp{K: "reset", A: 1 + r.Intn(2), B: r.Intn(30), C: r.Intn(20)}
			}
			cc.H2 = []POp{reset}
			for j := 0; j < 4; j++ {
				cc.H2 = append(cc.H2, POp{K: "readfrom", A: 1, B: r.Intn(100)})
				for i, n := 0, 1+r.Intn(2+c.BufferSize/c.BlockSize); i < n && i < 30; i++ {
					cc.H2 = append(cc.H2, POp{K: "parse", A: r.Intn(2)})
				}
				cc.H2 = append(cc.H2, POp{K: "shrink"})
			}
			return core.MkCase(p.id, kind, idx, seed, tier, cc)
		}
		if class == "stallreset" {
			if c.BufferSize < 300 {
				c.BufferSize = 300 + r.Intn(700)
				c.ShrinkSize = r.Intn(c.BufferSize)
			}
			cc.Cfg = c
			cc.S1 = cc.S1[:100+r.Intn(100)]
			cc.H1 = []POp{{K: "readfrom", A: 0, B: len(cc.S1), Steps: []RStep{{N: 40 + r.Intn(50)}, {N: 50 + r.Intn(50), Err: 3}, {N: 0, Err: 1}}}, {K: "parse"}, {K: "parse"}}
			if r.Intn(2) == 0 {
				// the reader of the old life never came to an end
				cc.H1[0].Steps[2] = RStep{N: 0, Err: 2}
			}
			reset := POp{K: "reset", A: 0}
			if r.Intn(3) == 0 {
				reset = POp{K: "reset", A: 1 + r.Intn(2), B: r.Intn(40), C: r.Intn(20)}
			}
			cc.H2 = []POp{reset, {K: "readfrom", A: 0, B: 200, Steps: []RStep{{N: 50 + r.Intn(50), Err: 3}, {N: 30}, {N: 50 + r.Intn(49), Err: 3}, {N: 200}}}}
			for i := 0; i < 6; i++ {
				cc.H2 = append(cc.H2, POp{K: "parse", A: r.Intn(2)})
			}
			return core.MkCase(p.id, kind, idx, seed, tier, cc)
		}
		if class == "wrapreset" || class == "bigwrapreset" {
			// a WrappedParser that served a first stream (left after some
			// blocks, at io.EOF, or after its reader failed for good) gets a
			// new reader through Reset and must then behave like a new
			// WrappedParser around a new parser
			if c.BufferSize > 300 {
				c.BufferSize = 16 + r.Intn(280)
				c.ShrinkSize = r.Intn(c.BufferSize)
			}
			cc.Cfg = c
			cc.S1 = cc.S1[:len(cc.S1)%700]
			cc.S2 = cc.S2[:len(cc.S2)%700]
			plan1 := GenReadPlan(r, false)
			if class == "bigwrapreset" {
				c = gen.Cfg{Type: typ}
				if idx%2 == 1 {
					c = gen.SmallCfg(r, typ, gen.Opts{})
				}
				c.BufferSize = []int{0, 1 << 18, 1 << 20, 300000}[r.Intn(4)]
				c.ShrinkSize, c.WindowSize, c.BlockSize = 0, []int{0, 1 << 16}[r.Intn(2)], []int{0, 1 << 16, 100000}[r.Intn(3)]
				n1, n2 := 300000+r.Intn(700000), 300000+r.Intn(200000)
				if typ == "GSAP" || typ == "OSAP" {
					c.BufferSize, c.WindowSize = 1<<17, 1<<16
					n1, n2 = 200000+r.Intn(100000), 150000+r.Intn(100000)
				}
				c.TameBig()
				cc.Cfg = c
				_, cc.S1 = gen.Bytes(r, n1, c.Hint())
				_, cc.S2 = gen.Bytes(r, n2, c.Hint())
				plan1 = nil
			}
			end := r.Intn(4) // 0 EOF reached, 1 left after some calls, 2 reader fails for good, 3 one-shot error
			switch end {
			case 2:
				for i := 0; i < 6; i++ {
					plan1 = append(plan1, RStep{N: r.Intn(3), Err: 2})
				}
			case 3:
				plan1 = append(plan1, RStep{N: r.Intn(20), Err: 2})
			}
			cc.H1 = []POp{{K: "wparse", A: r.Intn(2), B: end, C: 1 + r.Intn(12), Steps: plan1}}
			cc.H2 = []POp{{K: "wparse", A: r.Intn(2), Steps: GenReadPlan(r, false)}}
			if class == "bigwrapreset" {
				cc.H2[0].Steps = nil
			}
			return core.MkCase(p.id, kind, idx, seed, tier, cc)
		}
		if class == "margin" {
			// the hash parsers load 8 bytes at every position, also from the
			// margin behind the end of the data, which holds the bytes of the
			// previous life (or the caller's spare capacity): short hash
			// inputs, data arriving in pieces of a few bytes so that many
			// positions are hashed while they touch the end of the data
			switch typ {
			case "HP", "BHP", "BUP":
				c.InputLen = 2 + r.Intn(2)
				c.HashBits = 2 + r.Intn(8)
			default:
				c.InputLen1 = 2 + r.Intn(2)
				c.InputLen2 = c.InputLen1 + 1 + r.Intn(3)
				c.HashBits1, c.HashBits2 = 2+r.Intn(8), 2+r.Intn(8)
			}
			if c.BufferSize < 40 {
				c.BufferSize = 40 + r.Intn(100)
				c.ShrinkSize = r.Intn(c.BufferSize)
			}
			c.BlockSize = 1 + r.Intn(24)
			cc.Cfg = c
			s1 := make([]byte, c.BufferSize)
			for i := range s1 {
				s1[i] = byte(0x80 + r.Intn(3))
			}
			cc.S1 = s1
			cc.H1 = []POp{{K: "write", A: 1, B: 0}}
			for i := 0; i < 1+c.BufferSize/c.BlockSize; i++ {
				cc.H1 = append(cc.H1, POp{K: "parse"})
			}
			cc.S2 = gen.Family(r, []string{"rand2", "rand2", "rand3", "tworuns"}[r.Intn(4)], 300, c.Hint())
			drain := 0
			reset := POp{K: "reset", A: 0}
			if r.Intn(2) == 0 {
				reset = POp{K: "reset", A: 2, B: r.Intn(20), C: r.Intn(20)}
			}
			if r.Intn(2) == 0 {
				// the previous life got its data through Reset(data) without
				// spare capacity (the buffer allocates exactly len+7 bytes);
				// the new life starts with a slice that is 0..8 bytes longer
				// and has no spare capacity either
				l1 := 1 + r.Intn(c.BufferSize-9)
				cc.H1 = []POp{{K: "reset", A: 1, B: l1}}
				for i := 0; i < 1+l1/c.BlockSize; i++ {
					cc.H1 = append(cc.H1, POp{K: "parse"})
				}
				reset = POp{K: "reset", A: 1, B: l1 + r.Intn(9)}
				drain = 1 + (l1+8)/c.BlockSize
			}
			cc.H2 = []POp{reset}
			for i := 0; i < drain; i++ {
				// parse the data of the Reset up to its end before anything
				// is written
				cc.H2 = append(cc.H2, POp{K: "parse", A: []int{0, 0, 1}[r.Intn(3)]})
			}
			for n := len(cc.H2) + 90; len(cc.H2) < n; {
				cc.H2 = append(cc.H2, POp{K: "write", B: 1 + r.Intn(6)})
				for j, np := 0, 1+r.Intn(3); j < np; j++ {
					op := POp{K: "parse"}
					switch r.Intn(5) {
					case 0, 1:
						op.B = 1
					case 2:
						op.A = 1
					}
					cc.H2 = append(cc.H2, op)
				}
				if r.Intn(8) == 0 {
					cc.H2 = append(cc.H2, POp{K: "shrink"})
				}
			}
			return core.MkCase(p.id, kind, idx, seed, tier, cc)
		}
		if class == "zerostart" {
			// 0x00 at buffer position 0 is indistinguishable from an unused
			// table entry: the old stream starts with a zero run whose length
			// is around the hash input / bucket geometry and has no zeros
			// elsewhere; the new stream has short zero runs near its start
			if c.BucketSize > 12 {
				c.BucketSize = 1 + r.Intn(5)
			}
			if c.BufferSize < 64 {
				c.BufferSize = 64 + r.Intn(200)
				c.ShrinkSize = c.BufferSize / 2
			}
			if c.WindowSize < 32 {
				c.WindowSize = 32 + r.Intn(300)
			}
			if c.BlockSize < 40 {
				c.BlockSize = 40 + r.Intn(100)
			}
			cc.Cfg = c
			il := c.InputLen + c.InputLen1
			k := c.BucketSize + il - 1
			switch r.Intn(4) {
			case 0:
				k += r.Intn(3) - 1
			case 1:
				k = 1 + r.Intn(12)
			}
			if k < 1 {
				k = 1
			}
			s1 := make([]byte, k)
			for i := 0; i < 40+r.Intn(40); i++ {
				s1 = append(s1, byte('A'+r.Intn(50)))
			}
			cc.S1 = s1
			var s2 []byte
			if r.Intn(2) == 0 {
				s2 = append(s2, byte('a'+r.Intn(3)))
			}
			for part := 0; part < 2+r.Intn(3); part++ {
				for i, z := 0, 1+r.Intn(6); i < z; i++ {
					s2 = append(s2, 0)
				}
				for i, z := 0, 1+r.Intn(5); i < z; i++ {
					s2 = append(s2, byte('b'+r.Intn(20)))
				}
			}
			for i := 0; i < 20; i++ {
				s2 = append(s2, byte('A'+i))
			}
			cc.S2 = s2
			cc.H1 = []POp{{K: "write", A: 0, B: len(s1)}, {K: "parse"}, {K: "parse"}, {K: "parse"}, {K: "parse"}}
			reset := POp{K: "reset", A: 0}
			if r.Intn(2) == 0 {
				reset = POp{K: "reset", A: 1 + r.Intn(2), B: len(s2), C: r.Intn(20)}
			}
			cc.H2 = []POp{reset, {K: "write", A: 0, B: len(s2)}, {K: "parse"}, {K: "parse"}, {K: "parse"}, {K: "parse"}}
			return core.MkCase(p.id, kind, idx, seed, tier, cc)
		}
		reset := POp{K: "reset", A: 0}
		if r.Intn(2) == 0 {
			reset = POp{K: "reset", A: 1 + r.Intn(3), B: r.Intn(1 + r.Intn(400)), C: r.Intn(20)}
		}
		cc.H2 = append([]POp{reset}, GenOps(r, 10+r.Intn(50), w)...)
		if class == "reset" && r.Intn(4) == 0 {
			// a Reset that is rejected (data longer than BufferSize) right
			// before the one that counts: the refused call must not leave
			// anything behind
			cc.H2 = append([]POp{{K: "reset", A: 4, B: r.Intn(5), C: 2 * r.Intn(2)}}, cc.H2...)
		}
	}
	return core.MkCase(p.id, kind, idx, seed, tier, cc)
}

// genC13Scale builds the cases whose point is a size or a count: hash tables
// of 2^19 to 2^22 entries (the defaults are 2^16 to 2^18), and 256 and more
// Resets of one parser object. The old life parses a stream A; the new life
// gets random bytes with hundreds of short pieces of A planted behind the
// positions they have in A, so that entries left over from A would verify.
func genC13Scale(r *rand.Rand, class, typ string, c gen.Cfg) C13Case {
	var cc C13Case
	nA := 256 << 10
	if class == "manyresets" {
		nA = 64 << 10
	}
	c.BufferSize = 2*nA + r.Intn(1000)
	c.WindowSize = c.BufferSize
	c.ShrinkSize = r.Intn(nA)
	c.BlockSize = []int{nA, 32 << 10, 1 << 16, 100000}[r.Intn(4)]
	il := 4 + r.Intn(3)
	switch typ {
	case "HP", "BHP":
		c.InputLen = il
		c.HashBits = 16
		if class == "bighash" {
			c.HashBits = 19 + r.Intn(4)
		}
	case "BUP":
		c.InputLen = il
		c.HashBits, c.BucketSize = 16, 8
		if class == "bighash" {
			c.HashBits, c.BucketSize = 19+r.Intn(2), 1+r.Intn(4)
		}
	case "DHP", "BDHP":
		c.InputLen1 = 3 + r.Intn(3)
		c.InputLen2 = c.InputLen1 + 1 + r.Intn(8-c.InputLen1)
		c.HashBits1, c.HashBits2 = 14+r.Intn(4), 16+r.Intn(3)
		if class == "bighash" {
			c.HashBits1, c.HashBits2 = 17+r.Intn(5), 19+r.Intn(4)
			if r.Intn(2) == 0 {
				c.HashBits1 = 19 + r.Intn(3)
			}
		}
	default:
		c.MinMatchLen, c.MaxMatchLen = 3, 273
		c.Cost = ""
	}
	cc.Cfg = c
	A := gen.Family(r, []string{"rand256", "rand256", "rand16", "text"}[r.Intn(4)], nA, c.Hint())
	cc.S1 = A
	cc.H1 = []POp{{K: "write", A: 0, B: nA}}
	for i := 0; i < nA/c.BlockSize+1; i++ {
		cc.H1 = append(cc.H1, POp{K: "parse"})
	}
	// planted pieces: (a) a piece of A behind the position it has in A; (b)
	// the new data shares three bytes with A at a position p (the fourth
	// differs) and repeats the hashed bytes of A at p later: an entry left
	// over from A has the right value and verifies for three bytes, a parser
	// that only knows the new data has no such entry
	ils := []int{c.InputLen, c.InputLen1, c.InputLen2, 4, 8}
	plant := func(n, pieces int) []byte {
		B := gen.Family(r, "rand256", n, c.Hint())
		for k := 0; k < pieces; k++ {
			l := 3 + r.Intn(6)
			i := l + r.Intn(n-2*l)
			j := r.Intn(i)
			if k%2 == 0 {
				copy(B[i:i+l], A[j:j+l])
				continue
			}
			il := ils[r.Intn(len(ils))]
			if il < 4 || i+il > n || j+il > len(A) || i-j < 4 {
				continue
			}
			copy(B[j:j+3], A[j:j+3])
			B[j+3] = A[j+3] ^ byte(1+r.Intn(255))
			copy(B[i:i+il], A[j:j+il])
		}
		return B
	}
	if class == "manyresets" {
		// most lives parse a few bytes; the lives around the counts at which
		// a counter of 7 or 8 bits wraps (and two drawn ones) parse 16 KiB
		// with planted pieces of A
		k := 258 + r.Intn(40)
		big := map[int]bool{1: true, 128: true, 255: true, 256: true, 257: true, 2 + r.Intn(k-2): true, 2 + r.Intn(k-2): true}
		for i := 1; i <= k; i++ {
			reset := POp{K: "reset", A: 0}
			if r.Intn(8) == 0 {
				reset = POp{K: "reset", A: 1 + r.Intn(2), B: r.Intn(16), C: r.Intn(20)}
			}
			var l C13Life
			if big[i] {
				l.S = plant(16<<10, 400)
				l.Ops = []POp{reset, {K: "write", A: 0, B: len(l.S)}, {K: "parse"}, {K: "parse", A: r.Intn(2)}}
			} else {
				l.S = gen.Family(r, "rand256", 4+r.Intn(12), c.Hint())
				l.Ops = []POp{reset, {K: "write", A: 0, B: len(l.S)}, {K: "parse"}}
			}
			cc.Lives = append(cc.Lives, l)
		}
		return cc
	}
	cc.S2 = plant(nA, 1500)
	reset := POp{K: "reset", A: 0}
	if r.Intn(3) == 0 {
		reset = POp{K: "reset", A: 1 + r.Intn(2), B: r.Intn(1000), C: r.Intn(20)}
	}
	cc.H2 = []POp{reset, {K: "write", A: 0, B: nA}}
	for i := 0; i < nA/c.BlockSize+2; i++ {
		cc.H2 = append(cc.H2, POp{K: "parse", A: []int{0, 0, 1}[r.Intn(3)]})
	}
	return cc
}

// recObs records every observable result of a history.
type recObs struct {
	log []string
}

func (o *recObs) Observe(ev *PEvent, ps *PState) (string, string) {
	var b bytes.Buffer
	fmt.Fprintf(&b, "%d %s n=%d err=%s delta=%d", ev.I, ev.Op.K, ev.N, errName(ev.Err), ev.Delta)
	if ev.Panic != nil {
		fmt.Fprintf(&b, " panic=%v", ev.Panic)
	}
	if ev.Blk != nil && ev.Op.K == "parse" && !ev.Nil {
		// nil and empty are equivalent
		fmt.Fprintf(&b, " seqs=%v lits=%x", ev.Blk.Sequences, ev.Blk.Literals)
	}
	if ev.Op.K == "probe" {
		fmt.Fprintf(&b, " got=%x c=%d", ev.ProbeGot, ev.ProbeC)
	}
	o.log = append(o.log, b.String())
	return "", ""
}

func runRecorded(cfg gen.Cfg, pre *PCase, main *PCase, poison byte) ([]string, error) {
	ps, err := NewParserFor(cfg)
	if err != nil {
		return nil, err
	}
	ps.Poison = poison // 0: zeroed spare capacity
	if pre != nil {
		RunHistory(ps, pre, &recObs{})
		ps.cursor = 0
	}
	o := &recObs{}
	RunHistory(ps, main, o)
	return o.log, nil
}

func diffLogs(a, b []string) (int, string) {
	for i := 0; i < len(a) || i < len(b); i++ {
		var x, y string
		if i < len(a) {
			x = a[i]
		}
		if i < len(b) {
			y = b[i]
		}
		if x != y {
			if len(x) > 300 {
				x = x[:300] + "..."
			}
			if len(y) > 300 {
				y = y[:300] + "..."
			}
			return i, fmt.Sprintf("first difference at step %d:\n  A: %s\n  B: %s", i, x, y)
		}
	}
	return -1, ""
}

// runWithDecoder runs a history and feeds every block into a Decoder
// instance of its own (distinct decoder instances are part of the clause).
func runConc(pc *PCase) []string {
	ps, err := NewParserFor(pc.Cfg)
	if err != nil {
		return []string{"config rejected"}
	}
	o := &recObs{}
	RunHistory(ps, pc, o)
	// decoder instance: decode the literal part of the log cheaply by
	// re-expanding through lz.DecoderBuffer
	var db lz.DecoderBuffer
	db.Init(lz.DecoderConfig{WindowSize: 64, BufferSize: 256})
	for i := 0; i < 200; i++ {
		db.WriteByte(byte(i))
		db.WriteMatch(3, 1)
		var tmp [64]byte
		db.Read(tmp[:])
	}
	o.log = append(o.log, fmt.Sprintf("decoder off=%d", db.Off))
	return o.log
}

func (p *c13prop) Run(c *core.Case, st *core.Stats) []core.Violation {
	cc, err := decode[C13Case](c)
	if err != nil {
		return []core.Violation{core.V(c, "harness", "bad case: %v", err)}
	}
	if len(cc.Conc) > 0 {
		// sequential reference
		ref := make([][]string, len(cc.Conc))
		for i := range cc.Conc {
			ref[i] = runConc(&cc.Conc[i])
		}
		for rep := 0; rep < cc.Reps; rep++ {
			got := make([][]string, len(cc.Conc))
			var wg sync.WaitGroup
			start := make(chan struct{})
			for i := range cc.Conc {
				wg.Add(1)
				go func(i int) {
					defer wg.Done()
					<-start
					got[i] = runConc(&cc.Conc[i])
				}(i)
			}
			close(start)
			wg.Wait()
			st.Inc("concurrent_rounds")
			st.Add("concurrent_instances", int64(len(cc.Conc)))
			for i := range cc.Conc {
				if at, why := diffLogs(ref[i], got[i]); at >= 0 {
					return []core.Violation{core.V(c, "concurrent-differs", "%s instance %d cfg=%+v emits different results when other instances run concurrently (A sequential reference, B concurrent): %s", cc.Conc[i].Cfg.Type, i, cc.Conc[i].Cfg, why)}
				}
			}
		}
		st.NonTrivial(c)
		return nil
	}
	class, _ := splitKind(c.Kind)
	if class == "corpus" {
		_, rest := splitKind(c.Kind)
		class, _ = splitKind(rest)
	}
	if class == "wrapreset" || class == "bigwrapreset" {
		run := func(used bool) ([]string, error) {
			ps, err := NewParserFor(cc.Cfg)
			if err != nil {
				return nil, err
			}
			var log []string
			var blk lz.Block
			rd2 := &planReader{data: cc.S2, steps: cc.H2[0].Steps}
			var wp *lz.WrappedParser
			if used {
				h := cc.H1[0]
				rd1 := &planReader{data: cc.S1, steps: h.Steps}
				wp = lz.Wrap(rd1, ps.P)
				if h.B == 2 {
					rd1.failAfterPlan = true
				}
				errs := 0
				for i := 0; i < 5000; i++ {
					if h.B == 1 && i >= h.C {
						break
					}
					_, err := wp.Parse(&blk, h.A)
					if err == io.EOF {
						break
					}
					if err != nil {
						if errs++; errs >= 2 {
							break
						}
					}
				}
				wp.Reset(rd2)
			} else {
				wp = lz.Wrap(rd2, ps.P)
			}
			for i := 0; i < 5000; i++ {
				n, err := wp.Parse(&blk, cc.H2[0].A)
				log = append(log, fmt.Sprintf("%d n=%d err=%s seqs=%v lits=%x", i, n, errName(err), blk.Sequences, blk.Literals))
				if err != nil {
					break
				}
			}
			return log, nil
		}
		var a, b []string
		var nerr error
		if pv := call(func() { a, nerr = run(true) }); pv != nil {
			return []core.Violation{core.V(c, "panic", "%s cfg=%+v: reused WrappedParser: %s", cc.Cfg.Type, cc.Cfg, fmtPanic(pv))}
		}
		if nerr != nil {
			st.Inc("config_rejected")
			return nil
		}
		if pv := call(func() { b, _ = run(false) }); pv != nil {
			return []core.Violation{core.V(c, "panic", "%s cfg=%+v: new WrappedParser: %s", cc.Cfg.Type, cc.Cfg, fmtPanic(pv))}
		}
		st.Inc("pairs_compared")
		st.Inc("wrapped_pairs_compared")
		st.Inc(fmt.Sprintf("wrapped_pairs_first_stream_end_%d", cc.H1[0].B))
		if at, why := diffLogs(a, b); at >= 0 {
			return []core.Violation{core.V(c, "reset-differs-from-fresh", "%s cfg=%+v: a WrappedParser reused through Reset(reader) (A; first stream ended in mode %d: 0 io.EOF, 1 left early, 2 reader failed for good, 3 one-shot error) behaves differently from a new WrappedParser around a new parser (B); %s", cc.Cfg.Type, cc.Cfg, cc.H1[0].B, why)}
		}
		if len(b) > 1 {
			st.NonTrivial(c)
		}
		return nil
	}
	if class == "manyresets" {
		var used *PState
		var nerr error
		var bad []core.Violation
		pv := call(func() {
			used, nerr = NewParserFor(cc.Cfg)
			if nerr != nil {
				return
			}
			used.Poison = 0xa5
			RunHistory(used, &PCase{Cfg: cc.Cfg, Stream: cc.S1, Ops: cc.H1}, &recObs{})
			for i := range cc.Lives {
				l := &PCase{Cfg: cc.Cfg, Stream: cc.Lives[i].S, Ops: cc.Lives[i].Ops}
				a := &recObs{}
				used.cursor = 0
				RunHistory(used, l, a)
				b, _ := runRecorded(cc.Cfg, nil, l, 0)
				st.Inc("lives_compared")
				if len(cc.Lives[i].S) > 1000 {
					st.Inc("lives_compared_with_planted_old_data")
				}
				if at, why := diffLogs(a.log, b); at >= 0 {
					bad = []core.Violation{core.V(c, "reset-differs-from-fresh", "%s cfg=%+v: after Reset number %d of one parser object the parser (A) behaves differently from a new parser (B); %s", cc.Cfg.Type, cc.Cfg, i+1, why)}
					return
				}
			}
		})
		if pv != nil {
			return []core.Violation{core.V(c, "panic", "%s cfg=%+v: %s", cc.Cfg.Type, cc.Cfg, fmtPanic(pv))}
		}
		if nerr != nil {
			st.Inc("config_rejected")
			return nil
		}
		if bad != nil {
			return bad
		}
		st.Inc("pairs_compared")
		st.Inc("parsers_reset_more_than_256_times")
		st.NonTrivial(c)
		return nil
	}
	main := &PCase{Cfg: cc.Cfg, Stream: cc.S2, Ops: cc.H2}
	var pre *PCase
	if class == "reset" || class == "zerostart" || class == "margin" || class == "ntlreset" || class == "bighash" || class == "manyresets" || class == "stallreset" || class == "refill" || class == "hugecap" {
		pre = &PCase{Cfg: cc.Cfg, Stream: cc.S1, Ops: cc.H1}
	}
	// run A hands slices to Reset whose spare capacity holds garbage, run B
	// slices with zeroed capacity: the bytes behind len(data) are not data
	a, nerr := runRecorded(cc.Cfg, pre, main, 0xa5)
	if nerr != nil {
		st.Inc("config_rejected")
		return nil
	}
	b, _ := runRecorded(cc.Cfg, nil, main, 0)
	st.Inc("pairs_compared")
	st.Inc("pairs:" + class + ":" + cc.Cfg.Type)
	if at, why := diffLogs(a, b); at >= 0 {
		cl, what := "reset-differs-from-fresh", "after Reset a used parser (A) behaves differently from a new parser (B)"
		if class == "twin" {
			cl, what = "twins-differ", "two new parsers with equal configuration and calls differ"
		}
		return []core.Violation{core.V(c, cl, "%s cfg=%+v: %s; %s", cc.Cfg.Type, cc.Cfg, what, why)}
	}
	seqs := 0
	for _, l := range b {
		if bytes.Contains([]byte(l), []byte("seqs=[{")) {
			seqs++
		}
	}
	if seqs > 0 {
		st.Inc("pairs_with_matches_after_reset")
		st.NonTrivial(c)
		st.Sample(c, 1)
	}
	if len(cc.H2) > 0 && cc.H2[0].A > 0 {
		st.Inc("pairs_reset_with_data")
	} else {
		st.Inc("pairs_reset_nil")
	}
	return nil
}

func init() {
	core.Register(&c13prop{base{id: "C13", level: "exploration",
		rule:        "reset clause: for all 7 parsers a used parser (random prior history H1 with several fills/Shrinks, small alphabets, long hash inputs and few hash bits so that stale table entries would verify against new data) and a new parser both execute Reset(x) (x nil or data on the copy/alias/huge-capacity paths, each parser with its own copy) followed by the same history H2 (hugecap kind: the old life worked inside a caller slice with a capacity of 4*BufferSize+100, the new one is filled by readers that offer more than fits); ALL observable results of H2 (n, err, blocks with nil == empty, Shrink values, ReadAt/ByteAt answers) are compared; twin clause: two new parsers, same calls; schedule clause: the whole check runs in a -race build, and 32 goroutines drive 32 distinct parser instances (long streams through 16-200 byte buffers, hundreds of Shrinks each) plus a decoder instance each, several rounds; every goroutine's results are compared with the sequential reference run and every race detector report is a violation; non-trivial iff H2 produced a block with a match; distinct = distinct concrete case",
		assumptions: []string{"buffers <= 1017 bytes so that the read sizes offered to a reader do not depend on the capacity history of the buffer", "the race detector only sees the schedules that occurred"},
		mandatory:   []string{"pairs_compared", "pairs_with_matches_after_reset", "pairs_reset_with_data", "pairs_reset_nil", "concurrent_rounds", "wrapped_pairs_compared", "wrapped_pairs_first_stream_end_2", "parsers_reset_more_than_256_times", "lives_compared_with_planted_old_data", "pairs:bighash:HP"}}})
}
