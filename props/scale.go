package props

import (
	"math/rand"

	"github.com/ulikunitz/lz"
	"verif/gen"
)

// Scale scenarios of the parser histories: directed histories whose point is
// a size or a count that the random histories do not reach - more than 64 Ki
// sequences in one block, more than 64 KiB of bytes without a match behind a
// match, single matches longer than 64 KiB, more than 64 Ki positions
// without a match followed by a run, a megabyte discarded by one Shrink,
// hundreds of empty reads inside one ReadFrom, tens of thousands of unparsed
// suffixes between two parsed ones, every retained position needed as the
// source of a match after a Shrink. The observers are the same as for every
// other history.

var scaleAll = []string{"manyseq", "longtail", "noiserun", "longmatch", "hugeshrink", "stutter", "dense", "tandem", "ntlburst", "trickle", "hugegrow", "hugeblock", "nilburst", "noisecopy", "maxwindow", "maxwindow", "maxwindow"}

func isSA(typ string) bool { return typ == "GSAP" || typ == "OSAP" }

// scaleCfg returns the parser parameters for a scale case: the defaults of
// the library in half of the cases, a drawn small configuration otherwise;
// the buffer geometry is set by the caller.
func scaleCfg(r *rand.Rand, typ string, o gen.Opts, maxMin int) gen.Cfg {
	c := gen.Cfg{Type: typ}
	if r.Intn(2) == 0 {
		d := gen.SmallCfg(r, typ, o)
		if d.MinMatch() <= maxMin && d.InputLen <= maxMin && d.InputLen1 <= maxMin && d.InputLen2 <= 2*maxMin {
			c = d
		}
	}
	c.ShrinkSize, c.BufferSize, c.WindowSize, c.BlockSize = 0, 0, 0, 0
	return c
}

func parses(n int, flags ...int) []POp {
	var ops []POp
	for i := 0; i < n; i++ {
		ops = append(ops, POp{K: "parse", A: flags[i%len(flags)]})
	}
	return ops
}

func (h *histProp) genScale(r *rand.Rand, typ string, idx int64, o gen.Opts) PCase {
	name := h.scale[int(idx)%len(h.scale)]
	variant := int(idx) / len(h.scale)
	sa := isSA(typ)
	ntl := lz.NoTrailingLiterals
	var pc PCase
	switch name {
	case "manyseq":
		// one block with far more than 65536 sequences
		c := scaleCfg(r, typ, o, 6)
		bs := 1 << 20
		if sa {
			bs = 640 << 10
		}
		c.BlockSize = bs + r.Intn(3)*r.Intn(5000)
		c.BufferSize = 2*c.BlockSize + r.Intn(1000)
		c.WindowSize = []int{1 << 20, 1 << 16, c.BufferSize}[r.Intn(3)]
		c.ShrinkSize = 1 << 16
		wl, cl := 4, 3
		if c.MinMatch() > 4 || c.InputLen > 4 || c.InputLen1 > 4 {
			wl = 6
		}
		stream := gen.Records(r, c.BufferSize/(wl+cl)+1, 16+r.Intn(200), wl, cl)
		ops := []POp{{K: "write", A: 1, B: 0}}
		ops = append(ops, parses(3, []int{0, ntl}[variant&1], []int{ntl, 0}[variant&1], 0)...)
		ops = append(ops, POp{K: "shrink"}, POp{K: "write", A: 1, B: 0})
		ops = append(ops, parses(2, ntl, 0)...)
		pc = PCase{Cfg: c, Family: "records", Stream: stream, Ops: ops}
	case "longtail":
		// a block that starts with matches and goes on with more than 64 KiB
		// that offer no match at all
		c := scaleCfg(r, typ, o, 8)
		c.BufferSize = 700 << 10
		c.WindowSize = []int{1 << 20, 1 << 16, 4096}[r.Intn(3)]
		c.ShrinkSize = 1 << 15
		// the first block ends inside the first part without repeats, the
		// second one inside the second part
		head := gen.PeriodicRun(r, 1+r.Intn(40), 1000+r.Intn(6000), 4)
		c.BlockSize = len(head) + 65536 + r.Intn(100000)
		n1 := c.BlockSize - len(head) + r.Intn(50000)
		u := gen.UniqueTrigrams(r, 90+r.Intn(30), n1+c.BlockSize, 'a', 'b', 'c', 'd')
		stream := append(append([]byte{}, head...), u[:n1]...)
		stream = append(stream, gen.PeriodicRun(r, 1+r.Intn(40), 3000, 4)...)
		stream = append(stream, u[n1:]...)
		for len(stream) < c.BufferSize {
			stream = append(stream, gen.Family(r, "text", 50000, c.Hint())...)
		}
		ops := []POp{{K: "write", A: 1, B: 0}}
		ops = append(ops, parses(6, []int{ntl, 0}[variant&1], ntl, 0)...)
		pc = PCase{Cfg: c, Family: "longtail", Stream: stream, Ops: ops}
	case "noiserun":
		// more than 64 Ki positions that offer no match, then a run that
		// starts at a block start (and one that does not)
		c := scaleCfg(r, typ, o, 3)
		c.BlockSize = []int{0, 128 << 10, 64 << 10, 100000}[variant%4]
		bs := c.BlockSize
		if bs == 0 {
			bs = 128 << 10
		}
		c.BufferSize, c.WindowSize = 0, 0
		if sa {
			c.BufferSize, c.WindowSize = 1<<20, 1<<20
		}
		runb := byte(r.Intn(256))
		noise := gen.UniqueTrigrams(r, 80+r.Intn(40), 3*bs, runb)
		stream := append([]byte{}, noise[:len(noise)/bs*bs]...)
		for i := 0; i < bs+bs/2+r.Intn(bs); i++ {
			stream = append(stream, runb)
		}
		stream = append(stream, gen.UniqueTrigrams(r, 70, 1000, runb)...)
		ops := []POp{{K: "write", A: 0, B: len(stream)}}
		ops = append(ops, parses(len(stream)/bs+2, 0)...)
		pc = PCase{Cfg: c, Family: "noiserun", Stream: stream, Ops: ops}
	case "longmatch":
		// single matches of hundreds of kilobytes with offsets that are no
		// powers of two
		c := scaleCfg(r, typ, o, 8)
		n := 600 << 10
		if sa {
			n = 200 << 10
		}
		c.BlockSize = 1 << 20
		c.BufferSize = 3 << 20
		c.WindowSize = 1 << 20
		c.ShrinkSize = 1 << 16
		periods := []int{1, 2, 3, 5, 7, 24, 1000, 40000, 100000, 65535, 65537}
		var stream []byte
		for j := 0; j < 2; j++ {
			stream = append(stream, gen.Family(r, "rand256", 200+r.Intn(2000), c.Hint())...)
			p := periods[(variant*2+j+r.Intn(3))%len(periods)]
			stream = append(stream, gen.PeriodicRun(r, p, n+r.Intn(1000), 256)...)
		}
		ops := []POp{{K: "write", A: 0, B: len(stream)}}
		ops = append(ops, parses(4, 0, ntl)...)
		pc = PCase{Cfg: c, Family: "longmatch", Stream: stream, Ops: ops}
	case "hugeshrink":
		// more than a megabyte is parsed between two Shrink calls
		c := scaleCfg(r, typ, o, 8)
		c.BufferSize = 4 << 20
		c.ShrinkSize = []int{32 << 10, 1000, 65537, 100}[variant%4]
		c.BlockSize = []int{128 << 10, 512 << 10, 1 << 20, 300000}[r.Intn(4)]
		c.WindowSize = []int{1 << 20, 1 << 16}[r.Intn(2)]
		n1 := 1<<20 + 1<<19 + 1 + r.Intn(100)
		if typ == "OSAP" {
			n1 = 1<<20 + 40000 + r.Intn(100)
		}
		_, stream := gen.Bytes(r, 3<<20, c.Hint())
		if sa {
			// GSAP compares bytewise with both neighbours: runs of megabytes
			// would cost minutes of legitimate work
			// (and so would repeats at distances beyond the window)
			stream = gen.Family(r, []string{"rand4", "rand16"}[r.Intn(2)], 3<<20, c.Hint())
			c.WindowSize = c.BufferSize
		}
		var ops []POp
		// (the suffix array parsers get the data in steps: GSAP searches its
		// neighbours linearly through the unparsed look-ahead)
		step := n1
		if sa {
			step = 256 << 10
			if c.BlockSize > step {
				c.BlockSize = step
			}
		}
		for got := 0; got < n1; got += step {
			k := step
			if n1-got < k {
				k = n1 - got
			}
			ops = append(ops, POp{K: "write", A: 0, B: k})
			ops = append(ops, parses(k/c.BlockSize+2, 0, 0, ntl)...)
		}
		ops = append(ops, POp{K: "shrink"})
		if h.weights.Probe > 0 {
			for j := 0; j < 8; j++ {
				ops = append(ops, POp{K: "probe", A: r.Intn(6), B: 1 + r.Intn(8), C: r.Intn(3)})
			}
		}
		n2 := 1<<20 + 17 + r.Intn(64)
		if sa {
			n2 = 100000 + r.Intn(64)
		}
		ops = append(ops, POp{K: "write", A: 0, B: n2})
		ops = append(ops, parses(n2/c.BlockSize+2, 0)...)
		ops = append(ops, POp{K: "shrink"}, POp{K: "parse"})
		pc = PCase{Cfg: c, Family: "mixed", Stream: stream, Ops: ops}
	case "stutter":
		// a reader that makes steady progress in short reads with an empty
		// read (0, nil) before each of them: hundreds of empty reads inside
		// one ReadFrom call, never two in a row
		c := scaleCfg(r, typ, o, 8)
		c.BufferSize = []int{1 << 20, 0, 300000}[variant%3]
		c.BlockSize = 64 << 10
		if sa {
			c.BufferSize, c.WindowSize = 1<<19, 1<<19
		}
		n := 200<<10 + 77 + r.Intn(1000)
		_, stream := gen.Bytes(r, 2*n, c.Hint())
		piece := 300 + r.Intn(900)
		var steps []RStep
		for got := 0; got < n; got += piece {
			steps = append(steps, RStep{N: 0}, RStep{N: piece})
			if variant%2 == 1 && len(steps)%40 == 0 {
				// and now and then nothing for 100-300 calls in a row
				steps = append(steps, RStep{N: 100 + r.Intn(200), Err: 3})
			}
		}
		ops := []POp{{K: "readfrom", A: 0, B: n, Steps: steps}}
		ops = append(ops, parses(3, 0)...)
		ops = append(ops, POp{K: "shrink"})
		// the same through Wrap: the WrappedParser refills with one ReadFrom
		ops = append(ops, POp{K: "wparse", C: 0, D: n, Steps: steps}, POp{K: "wparse", C: 0, D: 0}, POp{K: "parse"})
		pc = PCase{Cfg: c, Family: "mixed", Stream: stream, Ops: ops}
	case "dense":
		// megabytes written before the first Parse; between the suffixes of
		// the run at the start lie tens of thousands of unparsed suffixes of
		// later records in suffix order
		c := scaleCfg(r, typ, o, 3)
		bs := 64
		c.BlockSize = bs
		c.BufferSize, c.WindowSize = 8<<20, 8<<20
		c.ShrinkSize = 1 << 16
		nrec := 70000 + r.Intn(10000)
		if typ == "OSAP" {
			nrec = 3000
		}
		stream := gen.DenseNeighbours(r, []byte{0, 'a', 1}[variant%3], bs, nrec)
		ops := []POp{{K: "write", A: 0, B: len(stream)}}
		ops = append(ops, parses(8, 0)...)
		pc = PCase{Cfg: c, Family: "dense", Stream: stream, Ops: ops}
	case "ntlburst":
		// hundreds of consecutive Parse calls with NoTrailingLiterals, each
		// of which finds a sequence and leaves a literal tail
		c := scaleCfg(r, typ, o, 6)
		unit := 24 + r.Intn(16)
		// (a block starts behind a token, holds the next token completely and
		// ends in the filler behind it)
		c.BlockSize = unit + 1 + r.Intn(unit/2-1)
		c.BufferSize = 1 << 16
		c.WindowSize = 1 << 16
		c.ShrinkSize = 1 << 12
		tok := gen.Family(r, "rand256", unit/2, c.Hint())
		var stream []byte
		for len(stream) < 40000 {
			stream = append(stream, tok...)
			stream = append(stream, gen.UniqueTrigrams(r, 40, unit-len(tok), tok...)...)
		}
		ops := []POp{{K: "write", A: 0, B: len(stream)}}
		ops = append(ops, parses(300+r.Intn(200), ntl)...)
		ops = append(ops, parses(20, 0, ntl)...)
		pc = PCase{Cfg: c, Family: "units", Stream: stream, Ops: ops}
	case "trickle":
		// one burst that makes the buffer grow, then hundreds of rounds of a
		// few bytes with a Shrink that discards something every time
		c := scaleCfg(r, typ, o, 8)
		c.BufferSize = []int{1 << 16, 1 << 18, 100000}[r.Intn(3)]
		c.ShrinkSize = 8 + r.Intn(24)
		c.BlockSize = 1 << 12
		c.WindowSize = 1 << 15
		burst := c.BufferSize*3/4 + r.Intn(c.BufferSize/4)
		_, stream := gen.Bytes(r, burst+40000, c.Hint())
		ops := []POp{{K: "write", A: 0, B: burst}}
		ops = append(ops, parses(burst/c.BlockSize+2, 0)...)
		ops = append(ops, POp{K: "shrink"})
		for j, rounds := 0, 140+r.Intn(160); j < rounds; j++ {
			ops = append(ops, POp{K: "write", A: 0, B: c.ShrinkSize + 8 + r.Intn(40)}, POp{K: "parse"}, POp{K: "shrink"})
			if h.weights.Probe > 0 && j%16 == 15 {
				ops = append(ops, POp{K: "probe", A: r.Intn(6), B: 1 + r.Intn(8), C: r.Intn(3)})
			}
		}
		if h.weights.Probe > 0 {
			for j := 0; j < 6; j++ {
				ops = append(ops, POp{K: "probe", A: j, B: 1 + r.Intn(8), C: r.Intn(3)})
			}
		}
		ops = append(ops, POp{K: "write", A: 0, B: 3000})
		ops = append(ops, parses(3, 0)...)
		pc = PCase{Cfg: c, Family: "mixed", Stream: stream, Ops: ops}
	case "hugegrow":
		// the buffer grows while it holds more than 4 MiB (lengths that are no
		// multiples of 4 or 8)
		c := scaleCfg(r, typ, o, 8)
		c.BufferSize = []int{32 << 20, 24<<20 + 5, 16 << 20}[variant%3]
		c.BlockSize = 1 << 20
		c.WindowSize = 1 << 20
		c.ShrinkSize = 1 << 16
		n1 := 4<<20 + 1 + r.Intn(7)
		if sa {
			// (nothing is parsed before the end: the suffix array parsers
			// only see the last piece)
			c.BlockSize = 1 << 16
		}
		_, stream := gen.Bytes(r, 10<<20, c.Hint())
		ops := []POp{{K: "write", A: 0, B: n1}, {K: "write", A: 0, B: 4<<20 + 300000 + r.Intn(7)}, {K: "readfrom", A: 0, B: 600000 + r.Intn(7)}, {K: "write", A: 0, B: 400001}}
		if variant%2 == 1 {
			ops[0], ops[1] = POp{K: "readfrom", A: 0, B: n1}, POp{K: "readfrom", A: 0, B: 4<<20 + 300000 + r.Intn(7), Steps: []RStep{{N: 100000}, {N: 4 << 20}}}
		}
		if h.weights.Probe > 0 {
			for j := 0; j < 6; j++ {
				ops = append(ops, POp{K: "probe", A: j, B: 1 + r.Intn(8), C: r.Intn(3)})
			}
		}
		if !sa {
			ops = append(ops, parses(11, 0)...)
			ops = append(ops, POp{K: "shrink"})
		} else {
			ops = append(ops, POp{K: "parse", B: 1}, POp{K: "parse", B: 1}, POp{K: "parse", B: 1})
		}
		pc = PCase{Cfg: c, Family: "mixed", Stream: stream, Ops: ops}
	case "hugeblock":
		// blocks of 2-4 MiB with several megabytes unparsed, also skipped
		// with Parse(nil)
		c := scaleCfg(r, typ, o, 8)
		c.BlockSize = []int{4 << 20, 2<<20 + 3, 3 << 20}[variant%3]
		c.BufferSize = 10 << 20
		c.WindowSize = 1 << 20
		c.ShrinkSize = 1 << 16
		n := 9 << 20
		if sa {
			c.BlockSize = 1<<20 + 1<<19
			c.BufferSize = 4 << 20
			n = 3 << 20
			c.WindowSize = c.BufferSize
		}
		var stream []byte
		if sa {
			stream = gen.Family(r, "rand16", n, c.Hint())
		} else {
			_, stream = gen.Bytes(r, n, c.Hint())
		}
		ops := []POp{{K: "write", A: 0, B: n}}
		if h.weights.ParseNil > 0 || variant%2 == 1 {
			ops = append(ops, POp{K: "parse", B: 1})
		}
		ops = append(ops, POp{K: "parse"}, POp{K: "parse", B: 1}, POp{K: "parse", A: ntl}, POp{K: "parse"})
		pc = PCase{Cfg: c, Family: "mixed", Stream: stream, Ops: ops}
	case "nilburst":
		// hundreds of blocks skipped with Parse(nil) after the first block,
		// then blocks again (no Write, Shrink or Reset in between)
		c := scaleCfg(r, typ, o, 8)
		c.BlockSize = 512 + r.Intn(1024)
		c.BufferSize = 1 << 19
		c.WindowSize = 1 << 19
		c.ShrinkSize = 1 << 12
		n := 300000 + r.Intn(100000)
		stream := gen.Family(r, []string{"text", "rand4", "lzsynth"}[r.Intn(3)], n, c.Hint())
		ops := []POp{{K: "write", A: 0, B: n}, {K: "parse"}}
		for j, k := 0, 130+r.Intn(120); j < k; j++ {
			ops = append(ops, POp{K: "parse", B: 1})
		}
		ops = append(ops, parses(6, 0, ntl)...)
		pc = PCase{Cfg: c, Family: "mixed", Stream: stream, Ops: ops}
	case "noisecopy":
		// more than 128 blocks in a row without any match, then data that
		// repeats the beginning
		c := scaleCfg(r, typ, o, 3)
		c.BlockSize = 64 + r.Intn(64)
		c.BufferSize = 1 << 17
		c.WindowSize = 1 << 17
		c.ShrinkSize = 1 << 12
		nb := 130 + r.Intn(100)
		noise := gen.UniqueTrigrams(r, 60+r.Intn(60), nb*c.BlockSize, 0)
		stream := append([]byte{}, noise...)
		stream = append(stream, noise[:3000+r.Intn(3000)]...)
		stream = append(stream, gen.Family(r, "rand4", 2000, c.Hint())...)
		ops := []POp{{K: "write", A: 0, B: len(stream)}}
		ops = append(ops, parses(len(stream)/c.BlockSize+2, 0, 0, 0, ntl)...)
		pc = PCase{Cfg: c, Family: "noisecopy", Stream: stream, Ops: ops}
	case "maxwindow":
		// the largest legal window (and values just below it) with few hash
		// bits on data over four letters, parsed in small blocks with
		// NoTrailingLiterals most of the time: table entries ahead of the parse
		// position and distances that only fit 32 bits when nothing wraps
		c := scaleCfg(r, typ, o, 4)
		c.WindowSize = []int{1<<32 - 8, 1<<32 - 8, 1<<32 - 8, 1<<32 - 9, 1<<32 - 200, 1<<32 - 8, 1<<32 - 16, 1 << 31}[r.Intn(8)]
		if typ == "GSAP" && c.WindowSize > 1<<31-1 {
			c.WindowSize = 1<<31 - 1
		}
		c.HashBits = 1 + r.Intn(3)
		if typ == "HP" || typ == "BHP" || typ == "BUP" {
			c.InputLen = 2 + r.Intn(3)
		}
		c.HashBits1, c.HashBits2 = 1+r.Intn(3), 2+r.Intn(3)
		if c.InputLen2 != 0 && c.InputLen2 <= c.InputLen1 {
			c.InputLen1, c.InputLen2 = 0, 0
		}
		c.BufferSize = 300 + r.Intn(1700)
		c.ShrinkSize = r.Intn(c.BufferSize / 2)
		c.BlockSize = 64 + r.Intn(64)
		stream := gen.Family(r, []string{"rand3", "rand3", "rand4", "rand2"}[r.Intn(4)], 20000, c.Hint())
		// short pieces, each parsed to its end with NoTrailingLiterals before
		// the next one arrives (the block is larger than the piece: the first
		// call hashes every position of it and hands most of them back)
		var ops []POp
		for len(ops) < 900 {
			ops = append(ops, POp{K: "write", A: 0, B: 12 + r.Intn(44)})
			for j := 0; j < 7; j++ {
				ops = append(ops, POp{K: "parse", A: []int{ntl, ntl, ntl, ntl, 0}[r.Intn(5)]})
			}
			if r.Intn(6) == 0 {
				ops = append(ops, POp{K: "shrink"})
			}
		}
		pc = PCase{Cfg: c, Family: "maxwindow", Stream: stream, Ops: ops}
	case "zeroshrink":
		// a prefix of non-zero bytes, a few zero bytes, then a run of one byte:
		// parsed in small blocks, and Shrink is called exactly when it makes
		// the buffer start with the zero bytes (a buffer that starts with
		// zeros is a special case for the bucket hash) - after the buffer
		// started with other bytes
		c := scaleCfg(r, typ, o, 4)
		if c.HashBits > 2 || r.Intn(4) > 0 {
			c.HashBits = 1 + r.Intn(4)/3
		}
		if typ == "BUP" {
			// (buckets that do not wrap before the Shrink)
			c.BucketSize = []int{128, 128, 64, 255}[r.Intn(4)]
		}
		bs := 32 + r.Intn(9)
		na, nb := 2+r.Intn(2), 1+r.Intn(2)
		c.BlockSize = bs
		c.ShrinkSize = nb * bs
		c.BufferSize = (na+9)*bs + 100
		c.WindowSize = c.BufferSize
		if sa {
			c.MinMatchLen = 2 + r.Intn(2)
		}
		var stream []byte
		for j := 0; j < na*bs; j++ {
			stream = append(stream, byte(1+(j*7+variant)%251))
		}
		for j, z := 0, 2+r.Intn(9); j < z; j++ {
			stream = append(stream, 0)
		}
		// three runs of different bytes, three blocks each (whichever of them
		// shares its bucket with the zero value)
		for k := 0; k < 3; k++ {
			runb := byte(1 + r.Intn(255))
			if variant%4 == 3 && k == 2 {
				runb = 0
			}
			for j := 0; j < 3*bs; j++ {
				stream = append(stream, runb)
			}
		}
		ops := []POp{{K: "write", A: 0, B: len(stream)}}
		ops = append(ops, parses(na+nb, 0)...)
		ops = append(ops, POp{K: "shrink"})
		ops = append(ops, parses(12, 0)...)
		ops = append(ops, POp{K: "shrink"})
		ops = append(ops, parses(30, 0)...)
		pc = PCase{Cfg: c, Family: "zeroshrink", Stream: stream, Ops: ops}
	case "tandem":
		// X X and X X X with |X| of 15-45 kB over few letters, and source text
		// repeated three times: the inputs that use up the work budget of the
		// suffix sorter
		c := scaleCfg(r, typ, o, 8)
		var stream []byte
		if variant&1 == 0 {
			stream = gen.Tandem(r, 15000+r.Intn(30000), 2+r.Intn(2), 2+r.Intn(5))
			stream = append(stream, gen.PeriodicRun(r, 1, r.Intn(20), 256)...)
		} else {
			x := gen.Family(r, "text", 60000+r.Intn(60000), c.Hint())
			stream = append(append(append(stream, x...), x...), x...)
		}
		c.BufferSize = len(stream) + r.Intn(1000)
		c.WindowSize = c.BufferSize
		c.BlockSize = []int{1 << 16, 1 << 17, len(stream)}[r.Intn(3)]
		c.ShrinkSize = 1 << 15
		ops := []POp{{K: "write", A: 0, B: len(stream)}}
		ops = append(ops, parses(len(stream)/c.BlockSize+2, 0, 0, ntl)...)
		pc = PCase{Cfg: c, Family: "tandem", Stream: stream, Ops: ops}
	case "allsources":
		// every position retained by a Shrink (more than 32 Ki of them) is the
		// only source of one four-byte piece of the next fill
		c := scaleCfg(r, typ, o, 3)
		c.MinMatchLen = 3
		c.ShrinkSize = 34000 + r.Intn(70000)
		c.BufferSize = 5*c.ShrinkSize + 8192
		c.WindowSize = c.BufferSize
		c.BlockSize = c.BufferSize
		n1 := c.ShrinkSize + 1000 + r.Intn(50000)
		first := gen.Family(r, "rand256", n1, c.Hint())
		lo := n1 - c.ShrinkSize
		perm := r.Perm(c.ShrinkSize - 4)
		stream := append([]byte{}, first...)
		for _, p := range perm {
			stream = append(stream, first[lo+p:lo+p+4]...)
		}
		ops := []POp{{K: "write", A: 0, B: n1}, {K: "parse"}, {K: "shrink"}, {K: "write", A: 1, B: 0}, {K: "parse", A: []int{0, ntl}[variant&1]}, {K: "parse"}}
		pc = PCase{Cfg: c, Family: "allsources", Stream: stream, Ops: ops}
	default:
		panic("unknown scale scenario " + name)
	}
	return pc
}
