package props

import (
	"bytes"
	"encoding/json"
	"fmt"
	"math"
	"math/rand"
	"reflect"
	"strings"

	"github.com/ulikunitz/lz"
	"verif/core"
	"verif/gen"
)

// ---------------------------------------------------------------- C20

// C20Case is a configuration with arbitrary field values, or a hostile JSON
// document, or a valid configuration for the twin clause.
type C20Case struct {
	Cfg  gen.Cfg `json:"cfg"`
	Prev gen.Cfg `json:"prev"` // decoded before (state leak between decodes)
	Doc  string  `json:"doc,omitempty"`
	Twin bool    `json:"twin,omitempty"`
	Data []byte  `json:"data,omitempty"`
}

type c20prop struct{ base }

func (p *c20prop) Plan(tier string, seed int64) []core.Segment {
	m := tierScale(tier, 50)
	return []core.Segment{{Kind: "corpus:fields", N: 2000}, {Kind: "fields", N: 20000 * m}, {Kind: "docs", N: 4000 * m}, {Kind: "corpus:twin", N: 200}, {Kind: "twin", N: 2000 * m},
		{Kind: "loadtwin", N: 42 * tierScale(tier, 10), Chunk: 3}}
}

var costStrings = []string{"", "XZCost", "xz", "Cost<&>\"'", "naïve-ünicode ✓", " line", "a\\b/c", "null", " ", "XZCost\t"}

func fieldValue(r *rand.Rand) int {
	switch r.Intn(8) {
	case 0:
		return 0
	case 1:
		return int(r.Uint64())
	case 2:
		return -1 - r.Intn(100)
	case 3:
		return []int{math.MaxInt64, math.MinInt64, 1 << 53, 1<<53 + 1, -(1 << 53) - 1, 1 << 62, 1<<63 - 1}[r.Intn(7)]
	}
	return 1 + r.Intn(1<<uint(1+r.Intn(30)))
}

func randomFields(r *rand.Rand, typ string) gen.Cfg {
	c := gen.Cfg{Type: typ}
	set := func(p *int) {
		if r.Intn(4) > 0 {
			*p = fieldValue(r)
		}
	}
	set(&c.ShrinkSize)
	set(&c.BufferSize)
	set(&c.WindowSize)
	set(&c.BlockSize)
	switch typ {
	case "HP", "BHP":
		set(&c.InputLen)
		set(&c.HashBits)
	case "BUP":
		set(&c.InputLen)
		set(&c.HashBits)
		set(&c.BucketSize)
	case "DHP", "BDHP":
		set(&c.InputLen1)
		set(&c.HashBits1)
		set(&c.InputLen2)
		set(&c.HashBits2)
	case "GSAP":
		set(&c.MinMatchLen)
	case "OSAP":
		set(&c.MinMatchLen)
		set(&c.MaxMatchLen)
		c.Cost = costStrings[r.Intn(len(costStrings))]
		if r.Intn(12) == 0 {
			// long strings: documents of 4 kB to 1 MiB (around 64 KiB: every
			// length from 65300 to 65700)
			n := []int{4000, 65300 + r.Intn(400), 65536, 70000, 1 << 20, 200000}[r.Intn(6)]
			b := make([]byte, n)
			for i := range b {
				b[i] = "XZCost-abc <&>é"[r.Intn(15)]
			}
			c.Cost = strings.ToValidUTF8(string(b), "?")
		}
	}
	return c
}

var hostileDocs = []string{
	// documents without a Type, with an unknown Type or that are no objects.
	// (encoding/json matches keys case-insensitively and lets the last
	// duplicate key win, so {"type":"HP"} is a valid HP document.)
	`{}`, `{"Type":""}`, `{"Type":"hp"}`, `{"Type":"HP "}`, `{"Type":"XYZ"}`, `{"Type":null}`,
	`{"Type":"HP","Type":"BHPX"}`, `[]`, `null`, `"HP"`, `123`, ``, `{`, `{"Type":123}`,
	`{"Type":["HP"]}`, `{"Type":"HPBHP"}`, `{"Typ":"HP"}`, `{"TYPE":"UNKNOWN"}`, `{"Type":"LZ4"}`, `{"Type":"OSAP2"}`,
	`{"BufferSize":12}`, `{"Type":" HP"}`, `{"Type":"H P"}`,
}

func (p *c20prop) Gen(kind string, idx int64, seed int64, tier string) core.Case {
	s := seed
	k := kind
	if len(kind) > 7 && kind[:7] == "corpus:" {
		s, k = 0, kind[7:]
	}
	r := core.Rand(s, p.id, kind, idx)
	typ := gen.ParserTypes[int(idx)%len(gen.ParserTypes)]
	var cc C20Case
	switch k {
	case "fields":
		cc.Cfg = randomFields(r, typ)
		cc.Prev = randomFields(r, gen.ParserTypes[r.Intn(len(gen.ParserTypes))])
	case "docs":
		if int(idx) < len(hostileDocs) {
			cc.Doc = hostileDocs[idx]
		} else {
			// a valid document of type X with its Type changed
			c := randomFields(r, typ)
			b, _ := json.Marshal(c.Lz())
			doc := string(b)
			other := []string{"", "hp", "Hp", "XP", "GSAP2", "OSAPX", "BUPP", "B", "DH", "unknown"}[r.Intn(10)]
			if r.Intn(5) == 0 {
				// a valid configuration followed by something else: such
				// input is not a JSON document at all (json.Valid is false),
				// in half of the cases the tail is a second object with an
				// unknown Type
				tail := []string{`{"Type":"NOPE"}`, `]`, ` trailing`, `,`, `{"Type":"` + typ + `"}`, `}`, `null`, ` {"Type":"XP","BufferSize":1}`}[r.Intn(8)]
				cc.Doc = doc + tail
				cc.Cfg = gen.Cfg{Type: typ}
				break
			}
			doc = strings.Replace(doc, `"Type":"`+typ+`"`, `"Type":"`+other+`"`, 1)
			if r.Intn(3) == 0 {
				doc = strings.Replace(doc, `"Type":"`+other+`",`, ``, 1)
				doc = strings.Replace(doc, `"Type":"`+other+`"`, ``, 1)
			}
			cc.Doc = doc
		}
		cc.Cfg = gen.Cfg{Type: typ}
	case "loadtwin":
		// defaulted search-structure parameters under load: kilobytes of
		// bytes without repeats fill the tables, then the same bytes come
		// again in permuted pieces, so that every piece needs a lookup that
		// only succeeds if the table is as large as the reported one
		cc.Twin = true
		cc.Cfg = gen.Cfg{Type: typ}
		cc.Cfg.BufferSize = []int{0, 1 << 16, 1 << 17, 40000, 1 << 14, 1 << 20}[r.Intn(6)]
		cc.Cfg.WindowSize = []int{0, 1 << 15, 1 << 16, 0}[r.Intn(4)]
		if cc.Cfg.BufferSize != 0 && cc.Cfg.WindowSize == 0 {
			cc.Cfg.WindowSize = cc.Cfg.BufferSize
		}
		if r.Intn(3) == 0 {
			// one explicit parameter, the others defaulted
			switch typ {
			case "HP", "BHP", "BUP":
				cc.Cfg.InputLen = 3 + r.Intn(3)
			case "DHP", "BDHP":
				cc.Cfg.InputLen1 = 3 + r.Intn(2)
			default:
				cc.Cfg.MinMatchLen = 3 + r.Intn(2)
			}
		}
		n := 4000 + r.Intn(12000)
		base := make([]byte, n)
		r.Read(base)
		data := append([]byte(nil), base...)
		piece := 16 + r.Intn(48)
		for _, j := range r.Perm(n / piece) {
			data = append(data, base[j*piece:(j+1)*piece]...)
		}
		cc.Data = data
	default:
		cc.Twin = true
		cc.Cfg = gen.SmallCfg(r, typ, gen.Opts{})
		if r.Intn(3) == 0 {
			// valid configurations with huge sizes and zero (defaulted)
			// fields; nothing of that size is allocated before data arrives
			big := []int{1 << 16, 1<<16 + 1, 1 << 20, 1 << 24, 1<<31 - 1, 1 << 31, 1<<31 + 1, 1<<32 - 9, 1<<32 - 8, 3 << 30, 8 << 20}
			pickBig := func() int {
				if r.Intn(3) == 0 {
					return 0
				}
				return big[r.Intn(len(big))]
			}
			cc.Cfg.WindowSize = pickBig()
			cc.Cfg.BufferSize = pickBig()
			cc.Cfg.BlockSize = pickBig()
			cc.Cfg.ShrinkSize = 0
			if r.Intn(2) == 0 && cc.Cfg.BufferSize > 1 {
				cc.Cfg.ShrinkSize = r.Intn(cc.Cfg.BufferSize)
			}
		}
		// leave some fields zero so that defaults matter
		if r.Intn(2) == 0 {
			cc.Cfg.ShrinkSize = 0
		}
		if r.Intn(4) == 0 {
			cc.Cfg.BlockSize = 0
		}
		if typ == "OSAP" && r.Intn(2) == 0 {
			cc.Cfg.MaxMatchLen = 0
		}
		_, cc.Data = gen.Bytes(r, 100+r.Intn(600), cc.Cfg.Hint())
	}
	return core.MkCase(p.id, kind, idx, seed, tier, cc)
}

func typeName(pc lz.ParserConfig) string { return reflect.TypeOf(pc).String() }

func (p *c20prop) Run(c *core.Case, st *core.Stats) []core.Violation {
	cc, err := decode[C20Case](c)
	if err != nil {
		return []core.Violation{core.V(c, "harness", "bad case: %v", err)}
	}
	fail := func(class, format string, args ...any) []core.Violation {
		return []core.Violation{core.V(c, class, format, args...)}
	}
	var out []core.Violation
	pv := call(func() {
		switch {
		case cc.Doc != "" || (!cc.Twin && cc.Cfg.BufferSize == 0 && cc.Prev.Type == "" && cc.Doc == "" && false):
			out = p.runDoc(c, cc, st)
		case cc.Twin:
			out = p.runTwin(c, cc, st)
		default:
			if c.Kind == "docs" {
				out = p.runDoc(c, cc, st)
			} else {
				out = p.runFields(c, cc, st)
			}
		}
	})
	if pv != nil {
		return fail("panic", "configuration handling panics for %+v doc=%q: %v", cc.Cfg, cc.Doc, pv)
	}
	return out
}

func (p *c20prop) runDoc(c *core.Case, cc *C20Case, st *core.Stats) []core.Violation {
	st.Inc("hostile_documents")
	if !json.Valid([]byte(cc.Doc)) {
		st.Inc("documents_that_are_not_valid_json")
	}
	pc, err := lz.ParseJSON([]byte(cc.Doc))
	if err == nil {
		return []core.Violation{core.V(c, "bad-document-accepted", "ParseJSON accepted %q and returned %s %+v", cc.Doc, typeName(pc), pc)}
	}
	// a document of another (or no) type must not be accepted by the typed
	// Unmarshal either
	for _, t := range gen.ParserTypes {
		x := gen.Cfg{Type: t}.Lz()
		if err := json.Unmarshal([]byte(cc.Doc), x); err == nil {
			return []core.Violation{core.V(c, "mismatching-type-accepted", "json.Unmarshal of %q into %s succeeded", cc.Doc, typeName(x))}
		}
		st.Inc("typed_unmarshal_rejections")
	}
	st.NonTrivial(c)
	return nil
}

func (p *c20prop) runFields(c *core.Case, cc *C20Case, st *core.Stats) []core.Violation {
	fail := func(class, format string, args ...any) []core.Violation {
		return []core.Violation{core.V(c, class, format, args...)}
	}
	orig := cc.Cfg.Lz()
	// a previous decode must not leak into this one
	if cc.Prev.Type != "" {
		if b, err := json.Marshal(cc.Prev.Lz()); err == nil {
			lz.ParseJSON(b)
		}
	}
	b, err := json.Marshal(orig)
	if err != nil {
		return fail("marshal-error", "json.Marshal(%+v): %v", cc.Cfg, err)
	}
	got, err := lz.ParseJSON(b)
	if err != nil {
		return fail("roundtrip-error", "ParseJSON(%s): %v", b, err)
	}
	if reflect.TypeOf(got) != reflect.TypeOf(orig) {
		return fail("roundtrip-type", "ParseJSON(%s) returned %s, want %s", b, typeName(got), typeName(orig))
	}
	if !reflect.DeepEqual(got, orig) {
		return fail("roundtrip-fields", "ParseJSON(Marshal(cfg)) differs: got %+v, want %+v (document %s)", got, orig, b)
	}
	if gen.FromLz(got) != cc.Cfg {
		return fail("roundtrip-fields", "round trip changed fields: got %+v, want %+v", gen.FromLz(got), cc.Cfg)
	}
	st.Inc("roundtrips")
	// the value ParseJSON returned belongs to the caller: changing it must not
	// change what the same document decodes to the next time (in this and in
	// any other goroutine's call)
	{
		gb := got.BufConfig()
		got.SetDefaults()
		got.SetBufConfig(lz.BufConfig{ShrinkSize: gb.ShrinkSize + 11, BufferSize: gb.BufferSize + 12, WindowSize: gb.WindowSize + 13, BlockSize: gb.BlockSize + 14})
		again, err := lz.ParseJSON(append([]byte(nil), b...))
		if err != nil {
			return fail("roundtrip-error", "second ParseJSON(%s): %v", b, err)
		}
		if !reflect.DeepEqual(again, orig) {
			return fail("roundtrip-fields", "the same document decoded a second time, after the first result was changed by its owner (SetDefaults, SetBufConfig), differs: got %+v, want %+v (document %s)", again, orig, b)
		}
		if reflect.ValueOf(again).Pointer() == reflect.ValueOf(got).Pointer() {
			return fail("roundtrip-fields", "two ParseJSON calls on equal documents returned the same object")
		}
		st.Inc("documents_decoded_twice")
	}
	// a document of type X must be rejected by every other type
	for _, t := range gen.ParserTypes {
		if t == cc.Cfg.Type {
			continue
		}
		x := gen.Cfg{Type: t}.Lz()
		if err := json.Unmarshal(b, x); err == nil {
			return fail("mismatching-type-accepted", "json.Unmarshal of the %s document %s into %s succeeded", cc.Cfg.Type, b, typeName(x))
		}
	}
	st.Inc("cross_type_rejections")
	// Clone: equal and independent
	cl := orig.Clone()
	if !reflect.DeepEqual(cl, orig) || reflect.TypeOf(cl) != reflect.TypeOf(orig) {
		return fail("clone-differs", "Clone of %+v is %+v", orig, cl)
	}
	if reflect.ValueOf(cl).Pointer() == reflect.ValueOf(orig).Pointer() {
		return fail("clone-shares", "Clone returned the receiver")
	}
	bc := cl.BufConfig()
	cl.SetBufConfig(lz.BufConfig{ShrinkSize: bc.ShrinkSize + 1, BufferSize: bc.BufferSize + 2, WindowSize: bc.WindowSize + 3, BlockSize: bc.BlockSize + 4})
	if gen.FromLz(orig) != cc.Cfg {
		return fail("clone-shares", "mutating the clone changed the original: %+v", orig)
	}
	if nb := cl.BufConfig(); nb.ShrinkSize != bc.ShrinkSize+1 || nb.BufferSize != bc.BufferSize+2 || nb.WindowSize != bc.WindowSize+3 || nb.BlockSize != bc.BlockSize+4 {
		return fail("bufconfig-accessors", "SetBufConfig/BufConfig do not round trip: %+v", nb)
	}
	if ob := orig.BufConfig(); ob.ShrinkSize != cc.Cfg.ShrinkSize || ob.BufferSize != cc.Cfg.BufferSize || ob.WindowSize != cc.Cfg.WindowSize || ob.BlockSize != cc.Cfg.BlockSize {
		return fail("bufconfig-accessors", "BufConfig() = %+v for %+v", ob, cc.Cfg)
	}
	st.Inc("clones")
	// SetDefaults: idempotent, only replaces zero fields
	d1 := orig.Clone()
	d1.SetDefaults()
	d2 := d1.Clone()
	d2.SetDefaults()
	if !reflect.DeepEqual(d1, d2) {
		return fail("setdefaults-not-idempotent", "SetDefaults twice: %+v then %+v", d1, d2)
	}
	v0 := reflect.Indirect(reflect.ValueOf(orig))
	v1 := reflect.Indirect(reflect.ValueOf(d1))
	for i := 0; i < v0.NumField(); i++ {
		if !v0.Field(i).IsZero() && !reflect.DeepEqual(v0.Field(i).Interface(), v1.Field(i).Interface()) {
			return fail("setdefaults-overwrites", "SetDefaults changed the non-zero field %s from %v to %v", v0.Type().Field(i).Name, v0.Field(i).Interface(), v1.Field(i).Interface())
		}
	}
	if gen.FromLz(orig) != cc.Cfg {
		return fail("setdefaults-on-clone-changed-original", "original changed: %+v", orig)
	}
	st.Inc("setdefaults_checked")
	st.NonTrivial(c)
	st.Sample(c, 2)
	return nil
}

func (p *c20prop) runTwin(c *core.Case, cc *C20Case, st *core.Stats) []core.Violation {
	fail := func(class, format string, args ...any) []core.Violation {
		return []core.Violation{core.V(c, class, format, args...)}
	}
	orig := cc.Cfg.Lz()
	eff := orig.Clone()
	eff.SetDefaults()
	if eff.Verify() != nil {
		st.Inc("config_rejected")
		return nil
	}
	p1, err := orig.NewParser()
	if err != nil {
		return fail("newparser", "NewParser(%+v): %v although the defaults-completed configuration verifies", cc.Cfg, err)
	}
	rep := p1.ParserConfig()
	if reflect.TypeOf(rep) != reflect.TypeOf(eff) || !reflect.DeepEqual(rep, eff) {
		return fail("reported-config", "ParserConfig() = %+v, the defaults-completed configuration is %+v", rep, eff)
	}
	if bc := p1.BufferConfig(); bc != eff.BufConfig() {
		return fail("reported-bufconfig", "BufferConfig() = %+v, want %+v", bc, eff.BufConfig())
	}
	st.Inc("reported_configs_checked")
	// a parser created from the reported configuration behaves identically,
	// also after a JSON round trip of the reported configuration
	b, err := json.Marshal(rep)
	if err != nil {
		return fail("marshal-error", "Marshal(reported config): %v", err)
	}
	viaJSON, err := lz.ParseJSON(b)
	if err != nil {
		return fail("roundtrip-error", "ParseJSON(reported config %s): %v", b, err)
	}
	var used []lz.Parser
	run := func(pc lz.ParserConfig) ([]string, error) {
		q, err := pc.NewParser()
		if err != nil {
			return nil, err
		}
		used = append(used, q)
		var log []string
		data := cc.Data
		for len(data) > 0 || true {
			n, _ := q.Write(data)
			data = data[n:]
			var blk lz.Block
			for {
				k, err := q.Parse(&blk, 0)
				if err != nil {
					break
				}
				log = append(log, fmt.Sprintf("%d %v %x", k, blk.Sequences, blk.Literals))
			}
			q.Shrink()
			if len(data) == 0 {
				break
			}
			if n == 0 && len(log) > 10000 {
				break
			}
		}
		return log, nil
	}
	l1, _ := run(orig)
	l2, err2 := run(rep.Clone())
	l3, err3 := run(viaJSON)
	if err2 != nil || err3 != nil {
		return fail("reported-config-unusable", "NewParser from the reported configuration: %v / via JSON: %v", err2, err3)
	}
	if at, why := diffLogs(l1, l2); at >= 0 {
		return fail("twin-differs", "parser from the reported configuration behaves differently: %s", why)
	}
	if at, why := diffLogs(l1, l3); at >= 0 {
		return fail("twin-differs", "parser from the JSON round trip of the reported configuration behaves differently: %s", why)
	}
	st.Inc("twins_compared")
	// the reported configuration is that of the creation for the whole life
	// of the parser: after parsing, shrinking, skipping, refilling through a
	// reader and resetting it must still equal the defaults-completed one
	for i, q := range used {
		for step := 0; step < 2; step++ {
			rep := q.ParserConfig()
			if reflect.TypeOf(rep) != reflect.TypeOf(eff) || !reflect.DeepEqual(rep, eff) {
				return fail("reported-config-after-use", "parser %d after use (step %d): ParserConfig() = %+v, the defaults-completed configuration is %+v", i, step, rep, eff)
			}
			if bc := q.BufferConfig(); bc != eff.BufConfig() {
				return fail("reported-bufconfig-after-use", "parser %d after use (step %d): BufferConfig() = %+v, want %+v", i, step, bc, eff.BufConfig())
			}
			if step == 1 {
				break
			}
			// second life: Reset, ReadFrom, Parse(nil), NoTrailingLiterals,
			// Shrink, wrapped parsing
			var blk lz.Block
			q.Reset(nil)
			q.ReadFrom(bytes.NewReader(cc.Data))
			q.Parse(nil, 0)
			q.Parse(&blk, lz.NoTrailingLiterals)
			q.Shrink()
			wp := lz.Wrap(bytes.NewReader(cc.Data), q)
			for j := 0; j < 1000; j++ {
				if _, err := wp.Parse(&blk, 0); err != nil {
					break
				}
			}
			if bc := q.BufferConfig(); len(cc.Data) <= bc.BufferSize {
				q.Reset(append([]byte(nil), cc.Data...))
				q.Parse(&blk, 0)
				q.Shrink()
			}
		}
	}
	st.Inc("reported_configs_checked_after_use")
	st.NonTrivial(c)
	st.Sample(c, 1)
	return nil
}

func init() {
	core.Register(&c20prop{base{id: "C20", level: "exploration",
		rule:        "fields: every field of all 7 configuration types is filled with 0, small, negative, large, +-int64 extremes and random 64-bit values (Cost from valid UTF-8 strings incl. HTML-escaped and non-ASCII characters), after another random configuration was decoded (state leaks between decodes): ParseJSON(Marshal(&cfg)) must return the same type with DeepEqual fields, every other type must reject the document, Clone must be equal and independent (mutated through SetBufConfig), SetDefaults idempotent and only replacing zero fields; docs: hand-written hostile documents and valid documents whose Type was changed to an unknown one or removed must be rejected by ParseJSON and by all 7 typed Unmarshal; twin: for valid small configurations with some zero fields the parser's ParserConfig()/BufferConfig() must equal the harness' Clone+SetDefaults copy and parsers created from the reported configuration (directly and through JSON) must emit identical blocks; non-trivial = every completed case; distinct = distinct concrete case",
		assumptions: []string{"JSON cannot carry invalid UTF-8: Cost strings are valid UTF-8", "the harness builds library configuration values by plain field assignment, independent of the library's JSON code"},
		mandatory:   []string{"roundtrips", "cross_type_rejections", "clones", "setdefaults_checked", "hostile_documents", "typed_unmarshal_rejections", "reported_configs_checked", "twins_compared", "reported_configs_checked_after_use"}}})
}
