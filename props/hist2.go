package props

import (
	"bytes"
	"fmt"
	"math/rand"

	"github.com/ulikunitz/lz"
	"verif/core"
	"verif/gen"
	"verif/ref"
)

// ---------------------------------------------------------------- C11

type c11obs struct {
	cr     commonReach
	st     *core.Stats
	eff    gen.Cfg
	blocks int
}

func blockCost(blk *lz.Block) uint64 {
	c := 9 * uint64(len(blk.Literals))
	for _, s := range blk.Sequences {
		c += lz.XZCost(s.MatchLen, s.Offset)
	}
	return c
}

func (o *c11obs) Observe(ev *PEvent, ps *PState) (string, string) {
	if ev.Panic != nil {
		return "panic", fmtPanic(ev.Panic)
	}
	o.cr.observe(ev, ps)
	if !isParseOK(ev) || ev.Flags != 0 || ev.NewDec == nil {
		return "", ""
	}
	start, end := ev.PreW, ev.PreW+ev.N
	if end > int64(len(ps.Fed)) || int64(len(ev.NewDec)) != end {
		return "", "" // C01/C03 decide this
	}
	got := blockCost(ev.Blk)
	var want uint64
	if ps.WindowSize > 400 && o.eff.MinMatchLen <= 8 {
		// large windows (cases with few repeats): sources through an index
		want = ref.OptimalCostIndexed(ps.Fed, int(ev.PreOff), int(start), int(end),
			o.eff.MinMatchLen, o.eff.MaxMatchLen, ps.WindowSize, lz.XZCost, 9)
		o.st.Inc("blocks_checked_with_windows_above_400")
		walkSeqs(ev, func(i int, s lz.Seq, pos int64) {
			if s.Offset > 512 {
				o.st.Inc("optimal_matches_with_offsets_above_512")
			}
			if s.Offset > 131072 {
				o.st.Inc("optimal_matches_with_offsets_above_128Ki")
			}
		})
	} else {
		want = ref.OptimalCost(ps.Fed, int(ev.PreOff), int(start), int(end),
			o.eff.MinMatchLen, o.eff.MaxMatchLen, ps.WindowSize, lz.XZCost, 9)
	}
	o.blocks++
	o.st.Inc("blocks_checked_against_optimum")
	if ev.PreOff > 0 {
		o.st.Inc("blocks_checked_after_shrink")
	}
	if len(ev.Blk.Sequences) > 0 {
		o.st.Inc("optimal_blocks_with_matches")
	}
	if got > want {
		return "suboptimal", fmt.Sprintf("block at stream position %d (%d bytes, buffer starts at %d) costs %d bits, an admissible parse costs %d bits; block=%+v bytes=%q", start, ev.N, ev.PreOff, got, want, *ev.Blk, ps.Fed[start:end])
	}
	if got < want {
		// cheaper than the oracle optimum: either the block is not
		// admissible (a violation) or the oracle is wrong (inconclusive)
		bad := ""
		walkSeqs(ev, func(i int, s lz.Seq, pos int64) {
			src := pos - int64(s.Offset)
			switch {
			case int(s.MatchLen) < o.eff.MinMatchLen || int(s.MatchLen) > o.eff.MaxMatchLen:
				bad = fmt.Sprintf("sequence %d %+v violates the match length limits", i, s)
			case int(s.Offset) > ps.WindowSize || s.Offset == 0:
				bad = fmt.Sprintf("sequence %d %+v violates the window", i, s)
			case src < ev.PreOff:
				bad = fmt.Sprintf("sequence %d %+v has its source at %d before the buffered data (starts at %d)", i, s, src, ev.PreOff)
			}
		})
		if bad != "" {
			return "inadmissible-parse", bad
		}
		o.st.Inconclusive = append(o.st.Inconclusive, fmt.Sprintf("oracle error: admissible block cheaper (%d) than the computed optimum (%d)", got, want))
		return "", ""
	}
	return "", ""
}

func (o *c11obs) Finish(ps *PState) bool { return o.blocks > 0 && o.cr.blocksMatch > 0 }

func init() {
	core.Register(&histProp{
		base: base{id: "C11", level: "exploration",
			rule:        "OSAP histories (MinMatchLen 2..8, MaxMatchLen from MinMatchLen to 1000, all window/buffer/block geometries up to 333 bytes, multi-fill incl. Shrink, Parse(nil), NoTrailingLiterals blocks in between and blocks that reuse computed edges) on small alphabets, periodic and LZ-synthetic strings; the cost of every flags-0 block is compared with an independent O(n*W*L) dynamic program over all admissible sources (inside the still buffered data and the window) and lengths; a block cheaper than the optimum is re-validated for admissibility; non-trivial iff at least one checked block contains a match; distinct = distinct concrete case",
			assumptions: []string{"cost function XZCost with 9 bits per literal as stated by the property", "admissible sources are the bytes at absolute positions >= sum of Shrink results"},
			mandatory:   []string{"blocks_checked_against_optimum", "blocks_checked_after_shrink", "optimal_blocks_with_matches", "shrink_discarding", "optimal_matches_with_offsets_above_512", "optimal_matches_with_offsets_above_128Ki"}},
		types: []string{"OSAP"}, quickN: 12000, thorMul: 40, corpusN: 1500, large: false, far: true,
		weights: HWeights{Write: 18, ReadFrom: 6, Parse: 40, ParseNTL: 6, ParseNil: 4, Shrink: 12, Reset: 1, ResetData: 2, WParse: 6},
		tweak: func(r *rand.Rand, pc *PCase, kind string) {
			// many alternative parses: small alphabets and repeats
			if r.Intn(3) > 0 {
				f := []string{"rand2", "rand3", "periodic", "lzsynth", "tworuns", "fib", "rand4"}[r.Intn(7)]
				pc.Stream = gen.Family(r, f, len(pc.Stream), pc.Cfg.Hint())
				pc.Family = f
			}
			if r.Intn(2) == 0 && pc.Cfg.BufferSize > 200 {
				pc.Cfg.BufferSize = 20 + r.Intn(180)
				if pc.Cfg.ShrinkSize >= pc.Cfg.BufferSize {
					pc.Cfg.ShrinkSize = pc.Cfg.BufferSize / 2
				}
			}
		},
		newObs: func(pc *PCase, ps *PState, c *core.Case, st *core.Stats) histObserver {
			return &c11obs{cr: commonReach{st: st}, st: st, eff: ps.Eff}
		},
	})
}

// ---------------------------------------------------------------- C12

type c12obs struct {
	cr     commonReach
	st     *core.Stats
	eff    gen.Cfg
	blocks int
	sorts  int
}

func (o *c12obs) Observe(ev *PEvent, ps *PState) (string, string) {
	if ev.Panic != nil {
		return "panic", fmtPanic(ev.Panic)
	}
	o.cr.observe(ev, ps)
	if !isParseOK(ev) || ev.NewDec == nil {
		return "", ""
	}
	unparsed := ev.PreFed - ev.PreW
	limit := ev.PreW + min64(int64(ps.BlockSize), unparsed)
	if limit > int64(len(ps.Fed)) || ev.PreW+ev.N > limit {
		return "", ""
	}
	lo := int(ev.PreOff)
	minM := o.eff.MinMatchLen
	literalClause := ps.BufferSize <= ps.WindowSize
	o.blocks++
	o.st.Inc("gsap_blocks_checked")
	if ev.PreOff > 0 || ps.Resets > 0 {
		o.st.Inc("gsap_blocks_checked_after_rebuild")
	}
	pos := ev.PreW
	// the brute-force search is quadratic: beyond 1500 buffered bytes the
	// longest previous match is taken from the harness' own suffix array
	// (prefix doubling) and LCP table of the buffered bytes up to the block end
	longest := func(q int) (int, int) { return ref.LongestPrev(ps.Fed, lo, q, int(limit)) }
	if int(limit)-lo > 1500 {
		pm := ref.NewPrevMatcher(ps.Fed[lo:limit])
		longest = func(q int) (int, int) {
			b, src := pm.Longest(q - lo)
			return b, src + lo
		}
		o.st.Inc("gsap_blocks_checked_with_suffix_array_oracle")
	}
	checkLit := func(from, to int64) (string, string) {
		if !literalClause {
			return "", ""
		}
		for q := from; q < to; q++ {
			best, src := longest(int(q))
			o.st.Inc("literal_positions_checked")
			if best >= minM {
				return "literal-despite-match", fmt.Sprintf("byte at stream position %d emitted as literal although position %d offers a match of %d >= MinMatchLen %d bytes (buffer starts at %d, block [%d,%d)); block=%+v", q, src, best, minM, lo, ev.PreW, limit, *ev.Blk)
			}
		}
		return "", ""
	}
	for i, s := range ev.Blk.Sequences {
		if c, m := checkLit(pos, pos+int64(s.LitLen)); c != "" {
			return c, m
		}
		pos += int64(s.LitLen)
		best, src := longest(int(pos))
		o.st.Inc("matches_checked")
		if int(s.MatchLen) != best {
			return "match-not-longest", fmt.Sprintf("sequence %d %+v at stream position %d: the longest available match has %d bytes (source %d; buffer starts at %d, block [%d,%d))", i, s, pos, best, src, lo, ev.PreW, limit)
		}
		pos += int64(s.MatchLen)
	}
	if ev.Flags&lz.NoTrailingLiterals == 0 || len(ev.Blk.Sequences) == 0 {
		if c, m := checkLit(pos, ev.PreW+ev.N); c != "" {
			return c, m
		}
	}
	return "", ""
}

func (o *c12obs) Finish(ps *PState) bool { return o.blocks > 1 && o.cr.blocksMatch > 0 }

func init() {
	core.Register(&histProp{
		base: base{id: "C12", level: "exploration",
			rule:        "GSAP histories without Parse(nil) (both flag values, several blocks per fill, second and later fills, Shrink, Reset incl. data) on alphabets of 2-3 letters, periodic, two-letter-run and LZ-synthetic strings; for every emitted match the brute-force longest previous match over all still buffered earlier positions (clipped at the block end) must have exactly the emitted length; when BufferSize <= WindowSize every literal byte is checked to have no earlier match of >= MinMatchLen; non-trivial iff >= 2 blocks were checked and one has a match; distinct = distinct concrete case",
			assumptions: []string{"the block end used for clipping is parse position + min(BlockSize, unparsed), also for NoTrailingLiterals blocks"},
			mandatory:   []string{"gsap_blocks_checked", "gsap_blocks_checked_after_rebuild", "matches_checked", "literal_positions_checked", "blocks_ntl", "resets_ok", "gsap_blocks_checked_with_suffix_array_oracle"}},
		types: []string{"GSAP"}, quickN: 16000, thorMul: 40, corpusN: 2000, large: false, midtext: true,
		weights: HWeights{Write: 18, ReadFrom: 6, Parse: 34, ParseNTL: 16, ParseNil: 0, Shrink: 12, Reset: 2, ResetData: 3, WParse: 6},
		opts:    func(typ string) gen.Opts { return gen.Opts{} },
		scale:   []string{"allsources", "noisecopy", "ntlburst"},
		tweak: func(r *rand.Rand, pc *PCase, kind string) {
			if r.Intn(2) == 0 {
				// the literal clause needs BufferSize <= WindowSize
				pc.Cfg.WindowSize = pc.Cfg.BufferSize + r.Intn(3)
				if pc.Cfg.WindowSize < pc.Cfg.MinMatchLen {
					pc.Cfg.WindowSize = pc.Cfg.MinMatchLen
				}
			}
			if r.Intn(4) > 0 {
				f := []string{"rand2", "rand3", "periodic", "lzsynth", "tworuns", "rand2", "thue"}[r.Intn(7)]
				pc.Stream = gen.Family(r, f, len(pc.Stream), pc.Cfg.Hint())
				pc.Family = f
			}
		},
		newObs: func(pc *PCase, ps *PState, c *core.Case, st *core.Stats) histObserver {
			return &c12obs{cr: commonReach{st: st}, st: st, eff: ps.Eff}
		},
	})
}

// ---------------------------------------------------------------- C19

type c19obs struct {
	cr   commonReach
	st   *core.Stats
	eff  gen.Cfg
	runs int
	// GSAP: number of buffered bytes covered by the last suffix sort (the
	// parser sorts when a block ends behind the sorted range and drops the
	// suffix array on Shrink/Reset), and whether positions were skipped by
	// Parse(nil) since then (they are not match sources)
	saLen   int64
	skipped bool
}

func (o *c19obs) Observe(ev *PEvent, ps *PState) (string, string) {
	if ev.Panic != nil {
		return "panic", fmtPanic(ev.Panic)
	}
	o.cr.observe(ev, ps)
	switch ev.Op.K {
	case "shrink":
		if ev.Delta > 0 {
			o.saLen, o.skipped = 0, false
		}
	case "reset":
		o.saLen, o.skipped = 0, false
	case "parse":
		if ev.Nil && ev.Err == nil {
			o.skipped = true
		} else if n := min64(int64(ps.BlockSize), ev.PreFed-ev.PreW); !ev.Nil && n > 0 && ev.PreW-ev.PreOff+n > o.saLen {
			o.saLen, o.skipped = ev.PreFed-ev.PreOff, false
		}
	}
	if !isParseOK(ev) || ev.NewDec == nil {
		return "", ""
	}
	unparsed := ev.PreFed - ev.PreW
	limit := ev.PreW + min64(int64(ps.BlockSize), unparsed)
	if limit > int64(len(ps.Fed)) || ev.PreW+ev.N > limit {
		return "", ""
	}
	typ := o.eff.Type
	fed := ps.Fed
	var class, msg string
	if typ != "OSAP" {
		walkSeqs(ev, func(i int, s lz.Seq, pos int64) {
			if class != "" || s.Offset == 0 || int64(s.Offset) > pos {
				return
			}
			end := pos + int64(s.MatchLen)
			o.st.Inc("matches_checked_for_maximality")
			if end < limit {
				if fed[end] == fed[end-int64(s.Offset)] {
					class, msg = "match-extendable", fmt.Sprintf("sequence %d %+v at stream position %d ends at %d before the block end %d although the next byte %#x equals the byte Offset back", i, s, pos, end, limit, fed[end])
					return
				}
				o.st.Inc("matches_ending_inside_block")
			} else {
				o.st.Inc("matches_ending_at_block_end")
			}
			if (typ == "BHP" || typ == "BDHP") && s.LitLen > 0 {
				q := pos - 1 - int64(s.Offset)
				if q >= ev.PreOff {
					o.st.Inc("backward_extension_checked")
					if fed[pos-1] == fed[q] {
						class, msg = "literal-before-match-extendable", fmt.Sprintf("sequence %d %+v at stream position %d: the literal %#x in front of the match equals the byte Offset before it (position %d, buffer starts at %d)", i, s, pos, fed[pos-1], q, ev.PreOff)
					}
				}
			}
		})
		if class != "" {
			return class, msg
		}
	}
	// run clause (flags 0 only)
	if ev.Flags == 0 && ev.N >= 32 {
		c := fed[ev.PreW]
		all := true
		for q := ev.PreW; q < ev.PreW+ev.N; q++ {
			if fed[q] != c {
				all = false
				break
			}
		}
		if all {
			bound := 1
			check := true
			if typ == "GSAP" || typ == "OSAP" {
				bound = o.eff.MinMatchLen
				check = o.eff.MinMatchLen <= 8
			}
			if typ == "GSAP" && ps.WindowSize < 2 {
				check = false // GSAP only uses offsets below WindowSize
			}
			if check {
				o.runs++
				o.st.Inc("run_blocks_checked")
				if ev.PreW > 0 && fed[ev.PreW-1] == c {
					o.st.Inc("run_blocks_inside_run")
				}
				if c == 0 {
					o.st.Inc("run_blocks_of_zero_bytes")
				}
				if ps.WindowSize <= 2 {
					o.st.Inc("run_blocks_with_tiny_window")
				}
				if len(ev.Blk.Literals) > bound {
					class := "run-not-compressed"
					if typ == "BUP" && len(ev.Blk.Literals) < o.eff.InputLen {
						// recorded finding: BUP prefers the longest candidate;
						// if that is an earlier separate run of the same byte
						// the match ends before the block end and the rest,
						// shorter than InputLen, cannot be matched any more
						rs := ev.PreW
						for rs > ev.PreOff && fed[rs-1] == c {
							rs--
						}
						k := 0
						for q := ev.PreOff; q < rs; q++ {
							if fed[q] == c {
								k++
								if k >= o.eff.InputLen {
									class = "bup-run-block-matched-against-earlier-run"
									break
								}
							} else {
								k = 0
							}
						}
					}
					if typ == "GSAP" {
						// recorded finding: the suffix array neighbours of the
						// positions of this run are positions of an earlier run
						// of the same byte that lies outside the window
						rs := ev.PreW
						for rs > ev.PreOff && fed[rs-1] == c {
							rs--
						}
						k := 0
						for q := ev.PreOff; q < rs; q++ {
							if fed[q] == c {
								k++
								if k >= o.eff.MinMatchLen && ev.PreW+ev.N-1-q >= int64(ps.WindowSize) {
									class = "gsap-run-block-shadowed-by-earlier-run-beyond-window"
									break
								}
							} else {
								k = 0
							}
						}
					}
					if class == "gsap-run-block-shadowed-by-earlier-run-beyond-window" && !o.skipped && o.saLen > 0 && o.saLen <= 3000 &&
						ev.PreOff+o.saLen <= int64(len(fed)) && ev.PreW+ev.N <= ev.PreOff+o.saLen {
						// the recorded finding is the documented method itself
						// (only the two nearest suffix array neighbours are
						// looked at, both lie in the earlier run beyond the
						// window). If that method, executed by the reference,
						// compresses this block, the literals have another
						// cause and are not the recorded finding.
						t := fed[ev.PreOff : ev.PreOff+o.saLen]
						if ref.TwoNeighbourLiterals(t, int(ev.PreW-ev.PreOff), int(ev.PreW-ev.PreOff+ev.N), o.eff.MinMatchLen, ps.WindowSize) <= bound {
							class = "run-not-compressed"
							o.st.Inc("gsap_run_literals_not_explained_by_the_recorded_finding")
						} else {
							o.st.Inc("gsap_run_literals_explained_by_the_recorded_finding")
						}
					}
					return class, fmt.Sprintf("block of %d bytes %#x at stream position %d carries %d literal bytes (allowed %d); block=%+v", ev.N, c, ev.PreW, len(ev.Blk.Literals), bound, *ev.Blk)
				}
			}
		}
	}
	return "", ""
}

func (o *c19obs) Finish(ps *PState) bool { return o.cr.blocksMatch > 0 }

func init() {
	core.Register(&histProp{
		base: base{id: "C19", level: "exploration",
			rule:        "maximality: every match of every block of the C01-style histories (all parsers but OSAP) is compared with the following byte and, for BHP/BDHP, the preceding literal with the byte Offset before it when that byte is still buffered; run clause: additional 'run' histories over prefix + c^N + suffix streams (c in {0x00,0x01,'a',0xff,random}, N from 32 to several buffer fills, chunked delivery, Shrink between blocks, WindowSize 1 for hash parsers and 2 for GSAP) where every flags-0 block of >= 32 equal bytes may carry at most 1 literal (hash parsers) resp. MinMatchLen literals (GSAP/OSAP, MinMatchLen <= 8); non-trivial iff the history has a block with a match; distinct = distinct concrete case",
			assumptions: []string{"the block end for maximality is parse position + min(BlockSize, unparsed)"},
			mandatory:   []string{"matches_checked_for_maximality", "matches_ending_inside_block", "matches_ending_at_block_end", "backward_extension_checked", "run_blocks_checked", "run_blocks_inside_run", "run_blocks_of_zero_bytes", "run_blocks_with_tiny_window"}},
		types: gen.ParserTypes, quickN: 12000, thorMul: 40, corpusN: 600, large: true,
		weights: DefaultWeights, scale: append(append([]string{}, scaleAll...), "zeroshrink", "zeroshrink", "zeroshrink", "zeroshrink", "zeroshrink", "zeroshrink"), duo: true,
		fixed: map[string]PCase{
			// reproducer of the recorded finding KF-C19-GSAP
			"gsap-shadowed-run": {Cfg: gen.Cfg{Type: "GSAP", ShrinkSize: 1, BufferSize: 203, WindowSize: 3, BlockSize: 39, MinMatchLen: 3},
				Family: "runs", Stream: append(append(append(append(bytes.Repeat([]byte{'d'}, 80), 0xe6), bytes.Repeat([]byte{'d'}, 49)...), '6'), bytes.Repeat([]byte{'d'}, 72)...),
				Ops: []POp{{K: "write", A: 1, B: 0}, {K: "parse"}, {K: "parse"}, {K: "parse"}, {K: "parse"}, {K: "parse"}, {K: "parse"}}},
			// a run longer than 64 KiB in a buffer beyond 64 KiB, parsed in
			// blocks that also start in the last few hundred bytes of the run
			// witnesses of repaired defects (BDHP stale long hash; BUP entry for
			// position 0 / value 0 taken for an empty slot)
			"bdhp-two-runs": {Cfg: gen.Cfg{Type: "BDHP", BufferSize: 128, WindowSize: 128, BlockSize: 32, InputLen1: 7, HashBits1: 8, InputLen2: 8, HashBits2: 12},
				Family: "runs", Stream: append(append(bytes.Repeat([]byte{'a'}, 31), 'b'), bytes.Repeat([]byte{'a'}, 32)...),
				Ops: []POp{{K: "write", A: 1, B: 0}, {K: "parse"}, {K: "parse"}}},
			"bup-zero-start": {Cfg: gen.Cfg{Type: "BUP", BufferSize: 128, WindowSize: 128, BlockSize: 32, InputLen: 2, HashBits: 1, BucketSize: 64},
				Family: "runs", Stream: append([]byte{0, 0}, bytes.Repeat([]byte{'c'}, 62)...),
				Ops: []POp{{K: "write", A: 1, B: 0}, {K: "parse"}, {K: "parse"}}},
			// reproducer of the recorded finding KF-C19-BUP
			"bup-old-run": {Cfg: gen.Cfg{Type: "BUP", BufferSize: 128, WindowSize: 128, BlockSize: 32, InputLen: 3, HashBits: 8, BucketSize: 64},
				Family: "runs", Stream: append(append(bytes.Repeat([]byte{'c'}, 30), 'x', 'y'), bytes.Repeat([]byte{'c'}, 32)...),
				Ops: []POp{{K: "write", A: 1, B: 0}, {K: "parse"}, {K: "parse"}}},
			"osap-long-run": longRunCase("OSAP"),
			"gsap-long-run": longRunCase("GSAP"),
			"hp-long-run":   longRunCase("HP"),
			"bup-long-run":  longRunCase("BUP"),
		},
		tweak: func(r *rand.Rand, pc *PCase, kind string) {
			if r.Intn(3) != 0 {
				return
			}
			// run clause workload
			n := len(pc.Stream)
			c := []byte{0, 1, 'a', 0xff, byte(r.Intn(256))}[r.Intn(5)]
			pre := r.Intn(12)
			suf := r.Intn(12)
			if r.Intn(3) == 0 {
				pre = 0
			}
			for i := range pc.Stream {
				if i < pre || i >= n-suf {
					pc.Stream[i] = byte(r.Intn(256))
				} else {
					pc.Stream[i] = c
				}
			}
			pc.Family = "run"
			if r.Intn(2) == 0 {
				// several separate runs of the same byte with short
				// separators, run starts aligned to block starts
				pc.Family = "multirun"
				bs := pc.Cfg.BlockSize
				if bs < 32 || bs > 200 {
					bs = 32 + r.Intn(40)
					pc.Cfg.BlockSize = bs
				}
				pos := 0
				for pos < n {
					l := bs*(1+r.Intn(3)) - r.Intn(4)
					if r.Intn(3) == 0 {
						l = 1 + r.Intn(3*bs)
					}
					for k := 0; k < l && pos < n; k++ {
						pc.Stream[pos] = c
						pos++
					}
					for k, sep := 0, 1+r.Intn(3); k < sep && pos < n; k++ {
						pc.Stream[pos] = byte('x' + r.Intn(3))
						pos++
					}
				}
				if r.Intn(2) == 0 {
					// one write of everything, then parse block by block
					pc.Ops = append([]POp{{K: "write", A: 1, B: 0}}, pc.Ops...)
				}
			}
			if pc.Cfg.BlockSize < 32 || pc.Cfg.BlockSize > 1<<20 {
				pc.Cfg.BlockSize = 32 + r.Intn(40)
			}
			if pc.Cfg.BufferSize < pc.Cfg.BlockSize {
				pc.Cfg.BufferSize = pc.Cfg.BlockSize + r.Intn(100)
				if pc.Cfg.ShrinkSize >= pc.Cfg.BufferSize {
					pc.Cfg.ShrinkSize = pc.Cfg.BufferSize - 1
				}
			}
			if r.Intn(3) == 0 {
				pc.Cfg.WindowSize = 1
				if pc.Cfg.Type == "GSAP" {
					pc.Cfg.WindowSize = 2
					pc.Cfg.MinMatchLen = 2
				}
			}
			for i := range pc.Ops {
				if pc.Ops[i].K == "parse" {
					pc.Ops[i].A = 0
				}
			}
		},
		newObs: func(pc *PCase, ps *PState, c *core.Case, st *core.Stats) histObserver {
			return &c19obs{cr: commonReach{st: st}, st: st, eff: ps.Eff}
		},
	})
}

// longRunCase is a directed run-clause case: prefix + 0x00^70000 + suffix in
// a buffer of 80000 bytes, parsed with blocks of 64 bytes up to the end.
func longRunCase(typ string) PCase {
	c := gen.Cfg{Type: typ, BufferSize: 80000, ShrinkSize: 100, WindowSize: 1 << 16, BlockSize: 64}
	switch typ {
	case "OSAP":
		c.MinMatchLen, c.MaxMatchLen = 3, 273
	case "GSAP":
		c.MinMatchLen = 3
	case "HP":
		c.InputLen, c.HashBits = 4, 12
	case "BUP":
		c.InputLen, c.HashBits, c.BucketSize = 4, 8, 4
	}
	stream := append([]byte("start"), make([]byte, 70000)...)
	stream = append(stream, []byte("the end")...)
	ops := []POp{{K: "write", A: 1, B: 0}}
	for i := 0; i < 70100/64+2; i++ {
		ops = append(ops, POp{K: "parse"})
	}
	return PCase{Cfg: c, Family: "long-run", Stream: stream, Ops: ops}
}
