// Package props contains the monitors, one per property, and the shared
// history executors they observe.
package props

import (
	"errors"
	"fmt"
	"io"
	"math"
	"math/rand"

	"github.com/ulikunitz/lz"
	"verif/gen"
	"verif/ref"
)

// ---- concrete parser history -------------------------------------------

// RStep is one step of a reader plan: return N bytes (clipped to what is
// asked for and what is left) together with error kind Err.
type RStep struct {
	N   int `json:"n"`
	Err int `json:"e,omitempty"` // 0 none, 1 io.EOF, 2 injected error, 3 stall: N consecutive (0, nil) results
}

// POp is one operation of a parser history. Sizes are resolved against the
// model state when the history runs (so that they stay meaningful relative to
// the free space); everything else is concrete.
type POp struct {
	K string `json:"k"`
	// write/readfrom: A=0 size B absolute; A=1 size free+B.
	// parse: A flags, B=1 nil block.
	// reset: A mode (0 nil, 1 copy path, 2 alias path, 3 huge capacity,
	//        4 oversize, 5 the parser's own PeekAt slice, 6 the slice in
	//        direct use refilled by the caller), B length.
	// probe: A anchor, B length, C kind (0 ReadAt, 1 ByteAt, 2 PeekAt).
	A int `json:"a,omitempty"`
	B int `json:"b,omitempty"`
	C int `json:"c,omitempty"`
	// wparse (Parse through lz.Wrap): A flags, B=1 nil block, C bit 0: size
	// is free+D instead of D, bit 1: WrappedParser.Reset(reader) first; D
	// size of the data the reader holds, Steps its chunk/fault plan.
	D     int     `json:"d,omitempty"`
	Steps []RStep `json:"steps,omitempty"`
}

// PCase is a concrete parser history.
type PCase struct {
	Cfg    gen.Cfg `json:"cfg"`
	Family string  `json:"family,omitempty"`
	Stream []byte  `json:"stream"`
	Ops    []POp   `json:"ops"`
}

// ErrInjected is the error the fault plans of the current case inject. It
// is set per case by SetInjectedError: mostly the harness' own value, for
// some cases an error value of the standard library that the library under
// test might treat specially (io.ErrUnexpectedEOF is what compress/* readers
// and io.ReadFull report for truncated input). Whatever the value, it must
// come back unchanged.
var ErrInjected = errOwn

var errOwn = errors.New("verif: injected fault")

var injectable = []error{errOwn, io.ErrUnexpectedEOF, errOwn, io.ErrNoProgress, errOwn, io.ErrClosedPipe, errOwn, io.ErrShortBuffer}

// SetInjectedError selects the injected error value for case idx. It is
// called by the worker before the case runs (never concurrently with it).
func SetInjectedError(idx int64) {
	if idx < 0 {
		idx = -idx
	}
	ErrInjected = injectable[idx%int64(len(injectable))]
}

// planReader serves data according to a plan and records what it handed out.
type planReader struct {
	data   []byte
	pos    int
	steps  []RStep
	step   int
	calls  int
	handed []byte
	// errs counts errors returned per kind
	nEOF, nInj int
	// zero counts consecutive (0,nil) results; bounded to keep within the
	// io.Reader conventions ReadFrom relies on
	zero int
	// failAfterPlan: once the plan is used up every call fails (a reader
	// that is broken for good)
	failAfterPlan bool
	// stall: number of (0, nil) results still to deliver (a reader that has
	// nothing for a while: legal, and it goes on afterwards)
	stall int
}

func (r *planReader) Read(p []byte) (int, error) {
	r.calls++
	if r.stall > 0 {
		r.stall--
		return 0, nil
	}
	var st RStep
	if r.step < len(r.steps) {
		st = r.steps[r.step]
		r.step++
	} else {
		st = RStep{N: len(p)}
		if r.pos >= len(r.data) {
			st = RStep{N: 0, Err: 1}
		}
		if r.failAfterPlan {
			st = RStep{N: 0, Err: 2}
		}
	}
	if st.Err == 3 {
		if len(p) == 0 {
			return 0, nil
		}
		r.stall = st.N - 1
		return 0, nil
	}
	n := st.N
	if n > len(p) {
		n = len(p)
	}
	if n > len(r.data)-r.pos {
		n = len(r.data) - r.pos
	}
	if n < 0 {
		n = 0
	}
	copy(p, r.data[r.pos:r.pos+n])
	r.handed = append(r.handed, r.data[r.pos:r.pos+n]...)
	r.pos += n
	switch st.Err {
	case 1:
		r.nEOF++
		return n, io.EOF
	case 2:
		r.nInj++
		return n, ErrInjected
	}
	if n == 0 && len(p) > 0 {
		r.zero++
		if r.zero > 3 {
			// never starve the caller: after three empty reads deliver
			// data or EOF
			r.zero = 0
			if r.pos < len(r.data) {
				p[0] = r.data[r.pos]
				r.handed = append(r.handed, p[0])
				r.pos++
				return 1, nil
			}
			r.nEOF++
			return 0, io.EOF
		}
	} else {
		r.zero = 0
	}
	return n, nil
}

// PState is the model of the stream a parser has seen since the last Reset.
type PState struct {
	P   lz.Parser
	Cfg gen.Cfg // as given
	Eff gen.Cfg // defaults completed (by the library's SetDefaults on a clone)
	// effective buffer sizes
	BufferSize, ShrinkSize, WindowSize, BlockSize int

	Fed []byte // bytes accepted since Reset
	Off int64  // absolute offset of the buffer start (sum of Shrink results)
	W   int64  // absolute parse position
	Dec []byte // reference expansion of all blocks (skipped bytes verbatim)

	// Skipped marks stream positions consumed by Parse(nil).
	Skipped int64
	// Fills counts how often the buffer was filled after a shrink.
	Shrinks, ShrinksPos, Resets, Parses int
	// LastShrinkAt is the absolute offset of the buffer start after the last
	// Shrink that discarded bytes; matches with sources >= Off prove that
	// re-based positions are used.
	cursor int
	stream []byte
	other  lz.Parser
	// Poison != 0: the spare capacity of slices handed to Reset (aliasing
	// paths) is filled with this pattern instead of zeros. The bytes behind
	// len(data) are not part of the data: results must not depend on them.
	Poison byte
	// FreshBlocks: every Parse call gets a new, empty Block (no capacity)
	// and the caller keeps the earlier ones, as a caller that collects the
	// blocks of a stream does: a block must still hold what it held when
	// Parse returned, whatever is called afterwards.
	FreshBlocks bool
	kept        []keptBlock
	// yield, if set, is called before every operation (histories that are
	// interleaved with the history of another object).
	yield func()
	// adopted is the slice with a margin of 7 bytes that the last such Reset
	// handed over ("used directly" by the documentation); freed are earlier
	// ones, replaced by a later slice with margin: they belong to the caller
	// again, who overwrites them before every operation.
	adopted []byte
	freed   [][]byte
}

type keptBlock struct {
	at   int
	blk  *lz.Block
	seqs []lz.Seq
	lits []byte
}

// checkKept compares the blocks the caller has kept with their content at the
// time Parse returned them.
func (s *PState) checkKept(now int) (class, msg string) {
	for _, k := range s.kept {
		same := len(k.blk.Sequences) == len(k.seqs) && string(k.blk.Literals) == string(k.lits)
		if same {
			for j := range k.seqs {
				if k.blk.Sequences[j] != k.seqs[j] {
					same = false
					break
				}
			}
		}
		if !same {
			return "retained-block-modified", fmt.Sprintf("the block returned by the Parse call of op %d (%d sequences, %d literals; a new Block value that the caller kept) has changed by the time of op %d: now %d sequences, %d literals, first sequences %+v (were %+v)", k.at, len(k.seqs), len(k.lits), now, len(k.blk.Sequences), len(k.blk.Literals), head(k.blk.Sequences), head(k.seqs))
		}
	}
	return "", ""
}

func head(s []lz.Seq) []lz.Seq {
	if len(s) > 3 {
		return s[:3]
	}
	return s
}

func (s *PState) keep(at int, blk *lz.Block) {
	s.kept = append(s.kept, keptBlock{at, blk, append([]lz.Seq(nil), blk.Sequences...), append([]byte(nil), blk.Literals...)})
	if len(s.kept) > 6 {
		s.kept = s.kept[1:]
	}
}

// Len returns the number of buffered bytes according to the model.
func (s *PState) Len() int64 { return int64(len(s.Fed)) - s.Off }

// Free returns the free space according to the model.
func (s *PState) Free() int64 { return int64(s.BufferSize) - s.Len() }

// Unparsed returns the number of buffered bytes not yet parsed.
func (s *PState) Unparsed() int64 { return int64(len(s.Fed)) - s.W }

// PEvent describes one executed operation: arguments, results and the model
// state before it.
type PEvent struct {
	I  int
	Op *POp
	// model state before the operation
	PreFed int64
	PreOff int64
	PreW   int64
	// arguments
	Given []byte // bytes offered (write), reset data
	// readfrom
	Reader *planReader
	// results
	N     int64
	Err   error
	Blk   *lz.Block // block after Parse (the harness' own value)
	Nil   bool
	Flags int
	Delta int
	Panic any
	// probes
	ProbeOff int64
	ProbeLen int
	ProbeGot []byte
	ProbeC   byte
	// NewDec is the expansion including this block (parse events) or nil
	// if the block could not be expanded (ExpandErr set).
	NewDec    []byte
	ExpandErr error
	// Desync is set by the executor if the model cannot follow.
	Desync string
	// ResetOK tells whether Reset was expected to succeed.
	ResetOversize bool
	// Wrapped marks a call made by a WrappedParser (seen by the spy).
	Wrapped bool
	// wparse: number of inner calls and the last of them
	InnerCalls int
	LastInner  *PEvent
}

// spyParser sits between a WrappedParser and the parser under test. Every
// call the WrappedParser makes is executed, shown to the observer and applied
// to the model before the WrappedParser sees the result.
type spyParser struct {
	lz.Parser
	st    *PState
	obs   PObserver
	rd    *planReader
	i     int
	calls int
	last  *PEvent
	// first violation (or silent stop) seen by an inner event
	class, msg string
	stop       bool
}

func (s *spyParser) event(op *POp) *PEvent {
	st := s.st
	s.calls++
	return &PEvent{I: s.i, Op: op, Wrapped: true, PreFed: int64(len(st.Fed)), PreOff: st.Off, PreW: st.W}
}

func (s *spyParser) emit(ev *PEvent) {
	s.last = ev
	if !s.stop {
		if c, m, stop := s.st.finish(ev, s.obs); stop {
			s.class, s.msg, s.stop = c, m, true
		}
	}
	if ev.Panic != nil {
		panic(ev.Panic)
	}
}

func (s *spyParser) Parse(blk *lz.Block, flags int) (n int, err error) {
	if s.stop {
		return s.Parser.Parse(blk, flags)
	}
	op := &POp{K: "parse", A: flags}
	if blk == nil {
		op.B = 1
	}
	ev := s.event(op)
	ev.Flags, ev.Nil, ev.Blk = flags, blk == nil, blk
	ev.Panic = call(func() { n, err = s.Parser.Parse(blk, flags) })
	ev.N, ev.Err = int64(n), err
	if ev.Panic == nil && err == nil && blk != nil {
		nd, xerr := ref.Expand(append([]byte(nil), s.st.Dec...), blk.Sequences, blk.Literals)
		if xerr != nil {
			ev.ExpandErr = xerr
		} else {
			ev.NewDec = nd
		}
	}
	s.emit(ev)
	return n, err
}

func (s *spyParser) Shrink() (delta int) {
	if s.stop {
		return s.Parser.Shrink()
	}
	ev := s.event(&POp{K: "shrink"})
	ev.Panic = call(func() { delta = s.Parser.Shrink() })
	ev.Delta = delta
	s.emit(ev)
	return delta
}

func (s *spyParser) ReadFrom(r io.Reader) (n int64, err error) {
	if s.stop || r != io.Reader(s.rd) {
		return s.Parser.ReadFrom(r)
	}
	ev := s.event(&POp{K: "readfrom"})
	rd := s.rd
	h, e, j, c := len(rd.handed), rd.nEOF, rd.nInj, rd.calls
	ev.Panic = call(func() { n, err = s.Parser.ReadFrom(r) })
	ev.N, ev.Err = n, err
	// the part of the reader's record that belongs to this call
	ev.Reader = &planReader{handed: rd.handed[h:], nEOF: rd.nEOF - e, nInj: rd.nInj - j, calls: rd.calls - c}
	s.emit(ev)
	return n, err
}

func (s *spyParser) Reset(data []byte) (err error) {
	if s.stop {
		return s.Parser.Reset(data)
	}
	ev := s.event(&POp{K: "reset"})
	ev.Given = data
	ev.Panic = call(func() { err = s.Parser.Reset(data) })
	ev.Err = err
	s.emit(ev)
	return err
}

// PObserver is implemented by the property monitors.
type PObserver interface {
	// Observe is called after every operation, before the model is
	// updated. A non-empty class stops the history and reports a violation.
	Observe(ev *PEvent, st *PState) (class, msg string)
}

// sentinel content the harness puts into blocks before Parse
var sentinelSeq = lz.Seq{LitLen: 0xdead, MatchLen: 0xbeef, Offset: 0xfeed, Aux: 0x5e}

// poisonBlock fills the whole capacity of the block's slices with sentinel
// content and leaves one sentinel element in each: Parse must overwrite or
// empty the block, and reused elements must not keep old field values.
func poisonBlock(blk *lz.Block) {
	s := blk.Sequences[:cap(blk.Sequences)]
	for i := range s {
		s[i] = sentinelSeq
	}
	blk.Sequences = append(s[:0], sentinelSeq)
	l := blk.Literals[:cap(blk.Literals)]
	for i := range l {
		l[i] = 0xAA
	}
	blk.Literals = append(l[:0], 0xAA, 0x55)
}

// pbParser drives a bare lz.ParserBuffer through the Parser interface: Parse
// only advances the parse position and emits the bytes as literals.
type pbParser struct{ lz.ParserBuffer }

func (p *pbParser) Parse(blk *lz.Block, flags int) (int, error) {
	n := len(p.Data) - p.W
	if n > p.BlockSize {
		n = p.BlockSize
	}
	if blk != nil {
		blk.Sequences = blk.Sequences[:0]
		blk.Literals = blk.Literals[:0]
	}
	if n == 0 {
		return 0, lz.ErrEmptyBuffer
	}
	if blk != nil {
		blk.Literals = append(blk.Literals, p.Data[p.W:p.W+n]...)
	}
	p.W += n
	return n, nil
}

func (p *pbParser) ParserConfig() lz.ParserConfig { return nil }

// NewParserFor creates the parser and the model state.
func NewParserFor(c gen.Cfg) (*PState, error) {
	if c.Type == "PB" {
		pb := &pbParser{}
		bc := lz.BufConfig{ShrinkSize: c.ShrinkSize, BufferSize: c.BufferSize, WindowSize: c.WindowSize, BlockSize: c.BlockSize}
		if err := pb.Init(bc); err != nil {
			return nil, err
		}
		e := pb.BufferConfig()
		st := &PState{P: pb, Cfg: c, Eff: gen.Cfg{Type: "PB", ShrinkSize: e.ShrinkSize, BufferSize: e.BufferSize, WindowSize: e.WindowSize, BlockSize: e.BlockSize}}
		st.BufferSize, st.ShrinkSize, st.WindowSize, st.BlockSize = e.BufferSize, e.ShrinkSize, e.WindowSize, e.BlockSize
		if c.BufferSize != 0 {
			st.BufferSize = c.BufferSize
		}
		if c.ShrinkSize != 0 {
			st.ShrinkSize = c.ShrinkSize
		}
		if c.BlockSize != 0 {
			st.BlockSize = c.BlockSize
		}
		return st, nil
	}
	pc := c.Lz()
	p, err := pc.NewParser()
	if err != nil {
		return nil, err
	}
	e := pc.Clone()
	e.SetDefaults()
	st := &PState{P: p, Cfg: c, Eff: gen.FromLz(e), Poison: 0x5a}
	bc := p.BufferConfig()
	st.BufferSize, st.ShrinkSize, st.WindowSize, st.BlockSize = bc.BufferSize, bc.ShrinkSize, bc.WindowSize, bc.BlockSize
	// explicit fields are authoritative for the model
	if c.BufferSize != 0 {
		st.BufferSize = c.BufferSize
	}
	if c.ShrinkSize != 0 {
		st.ShrinkSize = c.ShrinkSize
	}
	if c.WindowSize != 0 {
		st.WindowSize = c.WindowSize
	}
	if c.BlockSize != 0 {
		st.BlockSize = c.BlockSize
	}
	return st, nil
}

// driveOther uses a second parser instance of the same type (created on
// first use with a slightly different geometry): data without repeats, with
// repeats, Parse, Shrink, Reset.
func (s *PState) driveOther(op *POp) {
	if s.other == nil || op.A%7 == 0 {
		c := s.Cfg
		if c.Type == "PB" {
			return
		}
		if c.BufferSize > 8 {
			c.BufferSize -= op.A % 5
			if c.ShrinkSize >= c.BufferSize {
				c.ShrinkSize = c.BufferSize - 1
			}
		}
		p, err := c.Lz().NewParser()
		if err != nil {
			return
		}
		s.other = p
	}
	q := s.other
	buf := make([]byte, 16+op.B%200)
	for i := range buf {
		switch op.A % 3 {
		case 0:
			buf[i] = byte(i*37 + op.B) // no repeats
		case 1:
			buf[i] = 'a' + byte(i%3)
		default:
			buf[i] = 0
		}
	}
	q.Write(buf)
	var blk lz.Block
	for i := 0; i < 1+op.A%4; i++ {
		if _, err := q.Parse(&blk, op.A&1); err != nil {
			break
		}
	}
	if op.A%2 == 0 {
		q.Shrink()
	}
	if op.A%5 == 0 {
		q.Reset(nil)
	}
}

func (s *PState) take(n int64) []byte {
	if n < 0 {
		n = 0
	}
	if rem := int64(len(s.stream) - s.cursor); n > rem {
		n = rem
	}
	b := s.stream[s.cursor : s.cursor+int(n)]
	return b
}

func (s *PState) size(op *POp) int64 {
	if op.A == 1 {
		return s.Free() + int64(op.B)
	}
	return int64(op.B)
}

func call(f func()) (pv any) {
	defer func() {
		if r := recover(); r != nil {
			pv = r
		}
	}()
	f()
	return nil
}

// RunHistory executes the operations on the parser, feeding every event to the
// observer. It returns the violation class/message of the first violation (or
// ""), and the index of the operation.
func RunHistory(st *PState, pc *PCase, obs PObserver) (class, msg string, at int) {
	st.stream = pc.Stream
	blk := &lz.Block{}
	for i := range pc.Ops {
		op := &pc.Ops[i]
		if st.yield != nil {
			st.yield()
		}
		if st.FreshBlocks {
			if c, m := st.checkKept(i); c != "" {
				return c, m, i
			}
			blk = &lz.Block{}
		}
		for _, f := range st.freed {
			f = f[:cap(f)]
			for j := range f {
				f[j] = 0xC3 ^ byte(j*5+i)
			}
		}
		ev := &PEvent{I: i, Op: op, PreFed: int64(len(st.Fed)), PreOff: st.Off, PreW: st.W}
		p := st.P
		switch op.K {
		case "write":
			data := st.take(st.size(op))
			// the parser must not keep or modify the caller's slice
			// (a scratch slice with spare capacity that is overwritten as soon
			// as Write has returned)
			arg := callerCopy(data)
			ev.Given = data
			ev.Panic = call(func() {
				n, err := p.Write(arg)
				ev.N, ev.Err = int64(n), err
			})
			scribble(arg)
		case "readfrom":
			data := st.take(st.size(op))
			rd := &planReader{data: data, steps: op.Steps}
			ev.Reader = rd
			ev.Panic = call(func() {
				ev.N, ev.Err = p.ReadFrom(rd)
			})
		case "parse":
			ev.Flags = op.A
			ev.Nil = op.B == 1
			if ev.Nil {
				ev.Panic = call(func() {
					n, err := p.Parse(nil, ev.Flags)
					ev.N, ev.Err = int64(n), err
				})
			} else {
				// sentinel content must be overwritten or emptied
				if !st.FreshBlocks {
					poisonBlock(blk)
				}
				ev.Blk = blk
				ev.Panic = call(func() {
					n, err := p.Parse(blk, ev.Flags)
					ev.N, ev.Err = int64(n), err
				})
				if ev.Panic == nil && ev.Err == nil {
					nd, xerr := ref.Expand(append([]byte(nil), st.Dec...), blk.Sequences, blk.Literals)
					if xerr != nil {
						ev.ExpandErr = xerr
					} else {
						ev.NewDec = nd
					}
					if st.FreshBlocks {
						st.keep(i, blk)
					}
				}
			}
		case "wparse":
			// Parse through lz.Wrap: a spy between the WrappedParser and the
			// parser shows every inner Parse/Shrink/ReadFrom/Reset to the
			// observer online, exactly like the direct operations
			sz := int64(op.D)
			if op.C&1 != 0 {
				sz += st.Free()
			}
			rd := &planReader{data: st.take(sz), steps: op.Steps}
			spy := &spyParser{Parser: p, st: st, obs: obs, rd: rd, i: i}
			wp := lz.Wrap(rd, spy)
			ev.Flags = op.A
			ev.Nil = op.B == 1
			ev.Reader = rd
			var b *lz.Block
			if !ev.Nil {
				if !st.FreshBlocks {
					poisonBlock(blk)
				}
				b = blk
				ev.Blk = blk
			}
			ev.Panic = call(func() {
				if op.C&2 != 0 {
					wp.Reset(rd)
				}
				n, err := wp.Parse(b, ev.Flags)
				ev.N, ev.Err = int64(n), err
			})
			if spy.stop {
				return spy.class, spy.msg, i
			}
			ev.InnerCalls = spy.calls
			ev.LastInner = spy.last
			// the wrapped call changes nothing beyond its inner calls
			ev.PreFed, ev.PreOff, ev.PreW = int64(len(st.Fed)), st.Off, st.W
		case "other":
			// a different instance of the same parser type is created and
			// used in between: instances must not share state
			ev.Panic = call(func() { st.driveOther(op) })
		case "shrink":
			ev.Panic = call(func() { ev.Delta = p.Shrink() })
		case "reset":
			var data, own []byte
			l := op.B
			mode := op.A
			if st.BufferSize > 1<<22 && mode >= 3 {
				// the oversize / huge-capacity slices would need gigabytes
				mode = 1
			}
			switch mode {
			case 0:
				data = nil
			case 1, 2, 3:
				if l > st.BufferSize {
					l = st.BufferSize
				}
				src := st.take(int64(l))
				c := len(src)
				if mode == 2 {
					c = len(src) + 7 + op.C
				}
				if mode == 3 {
					c = 4*st.BufferSize + 100 + len(src)
				}
				data = make([]byte, len(src), c)
				copy(data, src)
				if st.Poison != 0 {
					tail := data[len(data):cap(data)]
					for j := range tail {
						tail[j] = st.Poison ^ byte(j*7)
					}
				}
			case 5:
				// the slice comes from the parser's own PeekAt (the caller
				// keeps the tail of what is buffered): legal, and the source
				// overlaps the buffer that Reset is about to fill
				pk, ok := p.(interface {
					PeekAt(n int, off int64) ([]byte, error)
				})
				if !ok || st.Len() == 0 {
					break
				}
				x := st.Off + int64(op.C)%st.Len()
				var q []byte
				if pv := call(func() { q, _ = pk.PeekAt(l, x) }); pv != nil {
					break
				}
				if l < len(q) {
					q = q[:l]
				}
				data = q
				own = append([]byte(nil), q...) // the content before the call
			case 6:
				// the caller refills the slice the parser has been using
				// directly (same array, new content of the same or another
				// length) and hands it over again
				if st.adopted == nil {
					// nothing in direct use yet: a new slice with margin
					if l > st.BufferSize {
						l = st.BufferSize
					}
					src := st.take(int64(l))
					data = make([]byte, len(src), len(src)+7+op.C)
					copy(data, src)
					break
				}
				a := st.adopted[:cap(st.adopted)]
				if l > len(a)-7 {
					l = len(a) - 7
				}
				if op.C%3 == 0 {
					l = len(st.adopted)
				}
				if l > st.BufferSize {
					l = st.BufferSize
				}
				src := st.take(int64(l))
				copy(a, src)
				if st.Poison != 0 {
					for j := len(src); j < len(a); j++ {
						a[j] = st.Poison ^ byte(j*3)
					}
				}
				data = a[:len(src)]
			case 4:
				l = st.BufferSize + 1 + op.B%5
				src := st.take(int64(l))
				if len(src) <= st.BufferSize {
					// stream exhausted: pad
					src = append(append([]byte(nil), src...), make([]byte, l-len(src))...)
				}
				data = append([]byte(nil), src...)
				ev.ResetOversize = true
			}
			ev.Given = data
			if own != nil {
				ev.Given = own
			}
			ev.Panic = call(func() { ev.Err = p.Reset(data) })
		case "probe":
			var x int64
			switch op.A {
			case 0:
				x = st.Off - 1
			case 1:
				x = st.Off
			case 2:
				x = int64(len(st.Fed)) - 1
			case 3:
				x = int64(len(st.Fed))
			case 4:
				x = int64(len(st.Fed)) + 1
			case 5:
				if st.Len() > 0 {
					x = st.Off + int64(op.C>>2)%st.Len()
				} else {
					x = st.Off
				}
			case 6:
				x = st.W
			case 8, 9, 10, 11:
				// far outside, but congruent to a retained offset modulo
				// 2^32 / 2^31, and the extremes of int64
				base := st.Off
				if st.Len() > 0 {
					base += int64(op.C>>2) % st.Len()
				}
				deltas := []int64{1 << 32, -(1 << 32), 1 << 33, 1 << 31, -(1 << 31), 1 << 40, 1<<32 + st.Len(), math.MaxInt64 - base, math.MinInt64 - base, 1<<62 - base, -1 - base}
				x = base + deltas[(op.C>>2)%len(deltas)]
			default:
				x = int64(op.B) - 3
			}
			ev.ProbeOff, ev.ProbeLen = x, op.B
			switch op.C & 3 {
			case 0:
				buf := make([]byte, op.B)
				ev.Panic = call(func() {
					n, err := p.ReadAt(buf, x)
					ev.N, ev.Err = int64(n), err
					if n >= 0 && n <= len(buf) {
						ev.ProbeGot = buf[:n]
					}
				})
			case 1:
				ev.Panic = call(func() { ev.ProbeC, ev.Err = p.ByteAt(x) })
			default:
				pk, ok := p.(interface {
					PeekAt(n int, off int64) ([]byte, error)
				})
				if !ok {
					continue
				}
				ev.Panic = call(func() {
					q, err := pk.PeekAt(op.B, x)
					ev.ProbeGot = append([]byte(nil), q...)
					ev.N, ev.Err = int64(len(q)), err
				})
			}
		default:
			panic("unknown op " + op.K)
		}

		if c, m, stop := st.finish(ev, obs); stop {
			return c, m, i
		}
	}
	return "", "", len(pc.Ops)
}

// finish shows an executed operation to the observer and then updates the
// model by the trusted rules. stop is set if the history cannot go on
// (violation, panic, or the model cannot follow).
func (st *PState) finish(ev *PEvent, obs PObserver) (class, msg string, stop bool) {
	{
		op, i, p := ev.Op, ev.I, st.P
		if c, m := obs.Observe(ev, st); c != "" {
			return c, fmt.Sprintf("op %d (%s): %s", i, opString(op), m), true
		}
		if ev.Panic != nil {
			// every monitor treats panics itself; if one ignores them the
			// history cannot continue
			return "", "", true
		}

		// ---- update the model by the trusted rules ------------------
		switch op.K {
		case "write":
			if ev.N < 0 || ev.N > int64(len(ev.Given)) {
				ev.Desync = "write count out of range"
				break
			}
			st.Fed = append(st.Fed, ev.Given[:ev.N]...)
			st.cursor += int(ev.N)
		case "readfrom":
			// the bytes the reader handed out are what was delivered; a
			// wrong count is C15's business, lost bytes show up in the blocks
			st.Fed = append(st.Fed, ev.Reader.handed...)
			st.cursor += len(ev.Reader.handed)
		case "parse":
			st.Parses++
			if ev.Err != nil {
				break
			}
			if ev.N < 0 || st.W+ev.N > int64(len(st.Fed)) {
				ev.Desync = "parse n beyond the data fed"
				break
			}
			if ev.Nil {
				st.Dec = append(st.Dec, st.Fed[st.W:st.W+ev.N]...)
				st.Skipped += ev.N
				st.W += ev.N
				break
			}
			if ev.NewDec == nil {
				ev.Desync = "block not expandable"
				break
			}
			st.Dec = ev.NewDec
			st.W += ev.N
			if int64(len(st.Dec)) != st.W {
				ev.Desync = "n differs from the expansion length"
			}
		case "shrink":
			st.Shrinks++
			if ev.Delta > 0 {
				st.ShrinksPos++
			}
			if ev.Delta < 0 || int64(ev.Delta) > st.W-st.Off {
				ev.Desync = "shrink result out of range"
				break
			}
			st.Off += int64(ev.Delta)
		case "reset":
			st.Resets++
			if ev.Err != nil && ev.ResetOversize && op.C&1 == 0 {
				// a refused Reset must leave the parser as it was: the
				// history goes on with the old stream
				break
			}
			if ev.Err != nil {
				// resynchronise (the other half of the cases does not rely
				// on the state after a failed Reset)
				if err := p.Reset(nil); err != nil {
					ev.Desync = "Reset(nil) failed"
					break
				}
				st.Fed, st.Dec, st.Off, st.W, st.Skipped = st.Fed[:0], st.Dec[:0], 0, 0, 0
				break
			}
			if !ev.Wrapped && (op.A == 2 || op.A == 3 || op.A == 6) && len(ev.Given) > 0 && cap(ev.Given) >= len(ev.Given)+7 {
				// "used directly": the parser's storage is this slice now; an
				// earlier one belongs to the caller again
				if st.adopted != nil && &st.adopted[:1][0] != &ev.Given[:1][0] {
					st.freed = append(st.freed, st.adopted)
					if len(st.freed) > 4 {
						st.freed = st.freed[1:]
					}
				}
				st.adopted = ev.Given
			}
			st.Fed = append(st.Fed[:0], ev.Given...)
			if op.A != 5 {
				st.cursor += len(ev.Given)
			}
			if st.cursor > len(st.stream) {
				st.cursor = len(st.stream)
			}
			st.Dec, st.Off, st.W, st.Skipped = st.Dec[:0], 0, 0, 0
		}
		if ev.Desync != "" {
			return "", "desync: " + ev.Desync, true
		}
	}
	return "", "", false
}

func opString(op *POp) string {
	return fmt.Sprintf("%s a=%d b=%d c=%d steps=%d", op.K, op.A, op.B, op.C, len(op.Steps))
}

// ---- history generation ---------------------------------------------------

// HWeights are the relative weights of the operations.
type HWeights struct {
	Write, ReadFrom, Parse, ParseNTL, ParseNil, Shrink, Reset, ResetData, Probe int
	// WParse: Parse through lz.Wrap with its own reader (flags and nil
	// block in the proportions of Parse/ParseNTL/ParseNil).
	WParse int
	// Other drives a second instance of the same parser type in between
	// (default weight 2; set to -1 to disable).
	Other int
	// Faults enables injected reader errors in ReadFrom plans.
	Faults bool
}

// DefaultWeights is the mix used by the round-trip style properties.
var DefaultWeights = HWeights{Write: 18, ReadFrom: 10, Parse: 30, ParseNTL: 12,
	ParseNil: 0, Shrink: 12, Reset: 1, ResetData: 2, Probe: 0, WParse: 10, Faults: true}

func genSize(r *rand.Rand) (a, b int) {
	switch r.Intn(10) {
	case 0:
		return 0, 0
	case 1:
		return 0, 1
	case 2:
		return 1, -1
	case 3, 4:
		return 1, 0
	case 5:
		return 1, 1
	case 6:
		return 1, 1 + r.Intn(400)
	default:
		return 0, 1 + r.Intn(1+r.Intn(300))
	}
}

// GenReadPlan generates a chunking / fault plan for a reader.
func GenReadPlan(r *rand.Rand, faults bool) []RStep {
	var steps []RStep
	switch r.Intn(6) {
	case 0:
		return nil // full reads
	case 1:
		for i := 0; i < 40; i++ {
			steps = append(steps, RStep{N: 1})
		}
	default:
		for i, n := 0, 1+r.Intn(12); i < n; i++ {
			st := RStep{N: r.Intn(1 + r.Intn(50))}
			switch r.Intn(12) {
			case 0:
				st.N = 0
				if r.Intn(6) == 0 {
					// the reader has nothing for 40-250 calls in a row
					st = RStep{N: 40 + r.Intn(210), Err: 3}
				}
			case 1:
				st.Err = 1 // data together with EOF
			case 2:
				if faults {
					st.Err = 2
				}
			case 3:
				if faults {
					st.Err = 2
					st.N = 0
				}
			}
			steps = append(steps, st)
			if st.Err != 0 {
				break
			}
		}
	}
	return steps
}

// GenOps generates a history of n operations.
func GenOps(r *rand.Rand, n int, w HWeights) []POp {
	if w.Other == 0 {
		w.Other = 2
	}
	if w.Other < 0 {
		w.Other = 0
	}
	total := w.Write + w.ReadFrom + w.Parse + w.ParseNTL + w.ParseNil + w.Shrink + w.Reset + w.ResetData + w.Probe + w.Other + w.WParse
	ops := make([]POp, 0, n)
	// a history starts with data
	for len(ops) < n {
		k := r.Intn(total)
		var op POp
		switch {
		case k < w.Write:
			a, b := genSize(r)
			op = POp{K: "write", A: a, B: b}
		case k < w.Write+w.ReadFrom:
			a, b := genSize(r)
			op = POp{K: "readfrom", A: a, B: b, Steps: GenReadPlan(r, w.Faults)}
		case k < w.Write+w.ReadFrom+w.Parse:
			op = POp{K: "parse"}
		case k < w.Write+w.ReadFrom+w.Parse+w.ParseNTL:
			op = POp{K: "parse", A: lz.NoTrailingLiterals}
		case k < w.Write+w.ReadFrom+w.Parse+w.ParseNTL+w.ParseNil:
			op = POp{K: "parse", B: 1, A: r.Intn(2)}
		case k < w.Write+w.ReadFrom+w.Parse+w.ParseNTL+w.ParseNil+w.Shrink:
			op = POp{K: "shrink"}
		case k < w.Write+w.ReadFrom+w.Parse+w.ParseNTL+w.ParseNil+w.Shrink+w.Reset:
			op = POp{K: "reset", A: 0}
		case k < w.Write+w.ReadFrom+w.Parse+w.ParseNTL+w.ParseNil+w.Shrink+w.Reset+w.ResetData:
			op = POp{K: "reset", A: 1 + r.Intn(4), B: r.Intn(1 + r.Intn(400)), C: r.Intn(20)}
			if r.Intn(6) == 0 {
				op.A, op.C = 5, r.Intn(1000)
			}
		case k < w.Write+w.ReadFrom+w.Parse+w.ParseNTL+w.ParseNil+w.Shrink+w.Reset+w.ResetData+w.Probe:
			op = POp{K: "probe", A: r.Intn(12), B: r.Intn(1 + r.Intn(12)), C: r.Intn(3) | r.Intn(1000)<<2}
			if r.Intn(6) == 0 {
				// extreme lengths (PeekAt only; ReadAt would need the memory)
				op.C = 2 | r.Intn(1000)<<2
				op.B = []int{math.MaxInt64, math.MaxInt64 - 1, math.MaxInt64 - r.Intn(400), 1 << 62, 1 << 32, 1<<31 - 1, 1 << 31}[r.Intn(7)]
			}
		case k < w.Write+w.ReadFrom+w.Parse+w.ParseNTL+w.ParseNil+w.Shrink+w.Reset+w.ResetData+w.Probe+w.WParse:
			a, b := genSize(r)
			op = POp{K: "wparse", C: a, D: b, Steps: GenReadPlan(r, w.Faults)}
			if a == 1 && b < 0 {
				op.D = 0
			}
			if pn := w.Parse + w.ParseNTL + w.ParseNil; pn > 0 {
				switch j := r.Intn(pn); {
				case j < w.Parse:
				case j < w.Parse+w.ParseNTL:
					op.A = lz.NoTrailingLiterals
				default:
					op.B, op.A = 1, r.Intn(2)
				}
			}
			if r.Intn(12) == 0 {
				op.C |= 2
			}
		default:
			op = POp{K: "other", A: r.Intn(1000), B: r.Intn(1000)}
		}
		ops = append(ops, op)
		// parse calls come in bursts so that buffers are drained
		if (op.K == "parse" || op.K == "wparse") && r.Intn(3) > 0 {
			if op.K == "wparse" {
				op.C &^= 2 // only the first call of a burst resets
			}
			for j, m := 0, r.Intn(6); j < m && len(ops) < n; j++ {
				ops = append(ops, op)
			}
		}
	}
	return ops
}

// GenPCase generates a complete parser history case.
func GenPCase(r *rand.Rand, typ string, o gen.Opts, w HWeights, nops, streamLen int) PCase {
	c := gen.SmallCfg(r, typ, o)
	fam, stream := gen.Bytes(r, streamLen, c.Hint())
	return PCase{Cfg: c, Family: fam, Stream: stream, Ops: GenOps(r, nops, w)}
}
