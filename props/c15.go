package props

import (
	"bytes"
	"fmt"
	"io"

	"github.com/ulikunitz/lz"
	"verif/core"
	"verif/gen"
)

// ---------------------------------------------------------------- C15

type c15obs struct {
	cr     commonReach
	st     *core.Stats
	probes int
}

// fullContent reads the whole retained range through ReadAt and compares it
// with the model (called after every mutating operation, model already
// updated is NOT available here, so it takes the expected state explicitly).
func fullContent(p lz.Parser, fed []byte, off int64) (string, string) {
	l := int64(len(fed)) - off
	if l <= 0 {
		return "", ""
	}
	buf := make([]byte, l)
	var n int
	var err error
	if pv := call(func() { n, err = p.ReadAt(buf, off) }); pv != nil {
		return "panic", fmt.Sprintf("ReadAt(%d bytes, %d): %s", l, off, fmtPanic(pv))
	}
	if err != nil || int64(n) != l {
		return "content-readat", fmt.Sprintf("ReadAt of the whole retained range [%d,%d) returned n=%d err=%v", off, off+l, n, err)
	}
	if !bytes.Equal(buf, fed[off:]) {
		i := commonPrefix(buf, fed[off:])
		return "content-differs", fmt.Sprintf("retained byte at absolute offset %d is %#x, the stream has %#x there (retained range [%d,%d))", off+int64(i), buf[i], fed[off+int64(i)], off, off+l)
	}
	return "", ""
}

func (o *c15obs) Observe(ev *PEvent, ps *PState) (string, string) {
	if ev.Panic != nil {
		return "panic", fmtPanic(ev.Panic)
	}
	o.cr.observe(ev, ps)
	st := o.st
	preLen := ev.PreFed - ev.PreOff
	free := int64(ps.BufferSize) - preLen
	// expected state after the operation
	fed, off := ps.Fed, ev.PreOff
	switch ev.Op.K {
	case "write":
		want := int64(len(ev.Given))
		if want > free {
			want = free
		}
		if want < 0 {
			want = 0
		}
		if ev.N != want {
			return "write-count", fmt.Sprintf("Write of %d bytes with %d free returned n=%d (want %d)", len(ev.Given), free, ev.N, want)
		}
		if (ev.N < int64(len(ev.Given))) != (ev.Err == lz.ErrFullBuffer) || (ev.Err != nil && ev.Err != lz.ErrFullBuffer) {
			return "write-error", fmt.Sprintf("Write of %d bytes stored %d and returned err=%v (ErrFullBuffer exactly when not everything could be taken)", len(ev.Given), ev.N, ev.Err)
		}
		if ev.Err == lz.ErrFullBuffer {
			st.Inc("write_full")
		}
		fed = append(append([]byte(nil), ps.Fed...), ev.Given[:ev.N]...)
	case "readfrom":
		rd := ev.Reader
		h := int64(len(rd.handed))
		if ev.N != h {
			return "readfrom-count", fmt.Sprintf("ReadFrom returned n=%d but the reader handed out %d bytes", ev.N, h)
		}
		if h > free {
			return "readfrom-overfill", fmt.Sprintf("ReadFrom stored %d bytes with only %d bytes free (BufferSize %d)", h, free, ps.BufferSize)
		}
		full := preLen+h == int64(ps.BufferSize)
		readerErr := rd.nEOF+rd.nInj > 0
		switch {
		case readerErr:
			if ev.Err != io.EOF && ev.Err != ErrInjected {
				return "readfrom-error", fmt.Sprintf("the reader signalled an error but ReadFrom returned %v", ev.Err)
			}
			st.Inc("readfrom_reader_error")
		case full:
			if ev.Err != lz.ErrFullBuffer {
				return "readfrom-error", fmt.Sprintf("buffer full and the reader has not signalled an error, but ReadFrom returned %v", ev.Err)
			}
			st.Inc("readfrom_full")
		default:
			return "readfrom-error", fmt.Sprintf("ReadFrom returned (%d, %v) although the buffer is not full (%d of %d) and the reader signalled no error", ev.N, ev.Err, preLen+h, ps.BufferSize)
		}
		fed = append(append([]byte(nil), ps.Fed...), rd.handed...)
	case "shrink":
		want := (ev.PreW - ev.PreOff) - int64(ps.ShrinkSize)
		if want < 0 {
			want = 0
		}
		if int64(ev.Delta) != want {
			return "shrink-delta", fmt.Sprintf("Shrink returned %d; parsed bytes in buffer %d, ShrinkSize %d, want %d", ev.Delta, ev.PreW-ev.PreOff, ps.ShrinkSize, want)
		}
		off = ev.PreOff + int64(ev.Delta)
		if ev.Delta > 0 {
			// the byte just before the new start must be gone
			var err error
			if pv := call(func() { _, err = ps.P.ByteAt(off - 1) }); pv != nil {
				return "panic", fmt.Sprintf("ByteAt(%d): %s", off-1, fmtPanic(pv))
			}
			if err != lz.ErrOutOfBuffer {
				return "shrink-discarded-less", fmt.Sprintf("after Shrink()=%d the offset %d is still readable (err=%v)", ev.Delta, off-1, err)
			}
			st.Inc("shrink_boundary_probed")
		}
	case "reset":
		if ev.ResetOversize {
			if ev.Err == nil {
				return "reset-oversize-accepted", fmt.Sprintf("Reset with %d bytes accepted, BufferSize is %d", len(ev.Given), ps.BufferSize)
			}
			st.Inc("reset_oversize_rejected")
			return "", ""
		}
		if ev.Err != nil {
			return "reset-error", fmt.Sprintf("Reset with %d bytes (BufferSize %d) returned %v", len(ev.Given), ps.BufferSize, ev.Err)
		}
		fed, off = ev.Given, 0
	case "parse":
		if ev.Err == nil && (ev.N < 0 || ev.PreW+ev.N > ev.PreFed) {
			return "", ""
		}
	case "probe":
		o.probes++
		x, l := ev.ProbeOff, int64(ev.ProbeLen)
		end := ev.PreFed
		in := x >= ev.PreOff && x < end
		switch ev.Op.C & 3 {
		case 0, 2: // ReadAt, PeekAt
			name := "ReadAt"
			if ev.Op.C&3 == 2 {
				name = "PeekAt"
			}
			if !in {
				if ev.Err != lz.ErrOutOfBuffer || ev.N != 0 {
					return "probe-out-of-range", fmt.Sprintf("%s(%d, off=%d) outside the retained range [%d,%d) returned n=%d err=%v", name, l, x, ev.PreOff, end, ev.N, ev.Err)
				}
				st.Inc("probe_out_of_buffer")
				break
			}
			avail := end - x
			want := l
			if want > avail {
				want = avail
			}
			if name == "ReadAt" && ev.N != want || name == "PeekAt" && ev.N < want {
				return "probe-count", fmt.Sprintf("%s(%d, off=%d) returned %d bytes, %d available", name, l, x, ev.N, avail)
			}
			got := ev.ProbeGot
			if int64(len(got)) > avail {
				return "probe-beyond-data", fmt.Sprintf("%s(%d, off=%d) returned %d bytes but only %d are retained", name, l, x, len(got), avail)
			}
			if !bytes.Equal(got, ps.Fed[x:x+int64(len(got))]) {
				return "probe-bytes", fmt.Sprintf("%s(%d, off=%d) returned bytes that differ from the stream", name, l, x)
			}
			if (avail < l) != (ev.Err == lz.ErrEndOfBuffer) || (ev.Err != nil && ev.Err != lz.ErrEndOfBuffer) {
				return "probe-error", fmt.Sprintf("%s(%d, off=%d) with %d bytes available returned err=%v", name, l, x, avail, ev.Err)
			}
			if ev.Err == lz.ErrEndOfBuffer {
				st.Inc("probe_end_of_buffer")
			} else {
				st.Inc("probe_ok")
			}
		case 1: // ByteAt
			switch {
			case in:
				if ev.Err != nil || ev.ProbeC != ps.Fed[x] {
					return "probe-bytes", fmt.Sprintf("ByteAt(%d) returned %#x, %v; the stream has %#x", x, ev.ProbeC, ev.Err, ps.Fed[x])
				}
				st.Inc("probe_ok")
			case x == end:
				if ev.Err != lz.ErrEndOfBuffer {
					return "probe-error", fmt.Sprintf("ByteAt(%d) exactly at the end of the data returned err=%v", x, ev.Err)
				}
				st.Inc("byteat_at_end")
			default:
				if ev.Err != lz.ErrOutOfBuffer {
					return "probe-out-of-range", fmt.Sprintf("ByteAt(%d) outside [%d,%d] returned err=%v", x, ev.PreOff, end, ev.Err)
				}
				st.Inc("probe_out_of_buffer")
			}
		}
		return "", ""
	}
	if ev.Op.K == "parse" {
		return "", ""
	}
	if int64(len(fed))-off > int64(ps.BufferSize) {
		return "over-capacity", fmt.Sprintf("the buffer holds %d bytes, BufferSize is %d", int64(len(fed))-off, ps.BufferSize)
	}
	if c, m := fullContent(ps.P, fed, off); c != "" {
		return c, m
	}
	st.Inc("content_checks")
	return "", ""
}

func (o *c15obs) Finish(ps *PState) bool { return o.probes > 0 && ps.ShrinksPos > 0 }

func init() {
	types := append([]string{"PB"}, gen.ParserTypes...)
	core.Register(&histProp{
		base: base{id: "C15", level: "exploration",
			rule:        "histories of Write/ReadFrom (chunk and fault plans)/Parse/Shrink/Reset (nil, copy path, aliasing path, huge capacity, oversize) mixed with ReadAt/PeekAt/ByteAt probes at Off-1, Off, Off+len-1, Off+len, Off+len+1, the parse position and random offsets with read sizes 0, 1, exact and beyond, on a bare lz.ParserBuffer and on all 7 parsers; a byte-list model (fed bytes, sum of Shrink results, parse position) decides counts, errors and bytes; after every mutating operation the whole retained range is read back and compared; non-trivial iff the history has probes and a Shrink that discarded bytes; distinct = distinct concrete case",
			assumptions: []string{"after a failed Reset(data) the harness re-synchronises with Reset(nil) instead of assuming the old state survives", "ShrinkSize == BufferSize is rejected by Verify in this tree and therefore not reachable"},
			mandatory:   []string{"content_checks", "probe_ok", "probe_out_of_buffer", "probe_end_of_buffer", "byteat_at_end", "write_full", "readfrom_full", "readfrom_reader_error", "shrink_boundary_probed", "reset_oversize_rejected", "reset_mode2", "reset_mode3", "wrap:refills", "wrap:shrink_discarding"}},
		types: types, quickN: 12000, thorMul: 40, corpusN: 300, large: true,
		weights: HWeights{Write: 16, ReadFrom: 14, Parse: 18, ParseNTL: 4, ParseNil: 4, Shrink: 14, Reset: 1, ResetData: 6, Probe: 40, WParse: 8, Faults: true},
		scale:   []string{"hugeshrink", "stutter", "manyseq", "trickle", "hugegrow", "hugeblock"},
		duo:     true,
		newObs: func(pc *PCase, ps *PState, c *core.Case, st *core.Stats) histObserver {
			return &c15obs{cr: commonReach{st: st}, st: st}
		},
	})
}
