package props

import "math/rand"

// Scale kinds of the decoder histories: blocks with hundreds to hundreds of
// thousands of sequences (an early stop far behind the first sequences, one
// call that needs more than 64 Ki drains), windows of a megabyte in buffers
// that are a few kilobytes larger and exactly as large as their array, single
// matches longer than 64 KiB.

// manySeqDCase: blocks of 300-3000 short sequences on buffers of 80 bytes to
// 8 KiB: a call on a DecoderBuffer stops with ErrFullBuffer after hundreds of
// sequences, a Decoder drains many times inside one call. hostile > 0: that
// percentage of the blocks carries one attacker-chosen value at an index
// that is often beyond 256.
func manySeqDCase(r *rand.Rand, sut string, hostile int) DCase {
	w := 16 + r.Intn(4000)
	b := w + 64 + r.Intn(4096)
	g := &DGen{SUT: sut, W: w, B: b, MaxItem: 12}
	var ops []DOp
	ops = append(ops, DOp{K: "write", Data: genLits(r, 1+r.Intn(w))})
	for len(ops) < 14 {
		nseq := 300 + r.Intn(2700)
		if r.Intn(4) == 0 {
			nseq = 250 + r.Intn(20)
		}
		seqs := make([]DSeq, nseq)
		total := 0
		for j := range seqs {
			s := DSeq{L: uint32(r.Intn(4)), M: uint32(r.Intn(13)), OK: 1 + r.Intn(5), O: uint32(r.Intn(1 << 16))}
			if r.Intn(8) == 0 {
				s.M = 0
			}
			seqs[j] = s
			total += int(s.L)
		}
		op := DOp{K: "block", Data: genLits(r, total+r.Intn(2)*r.Intn(40)), Seqs: seqs}
		if r.Intn(100) < hostile {
			op.Hostile = true
			j := r.Intn(nseq)
			s := &op.Seqs[j]
			switch r.Intn(3) {
			case 0:
				s.OK, s.O = 0, hostileU32(r, 0, g.W+1, g.W+int(s.L)+1, g.B)
				if s.M == 0 {
					s.M = 1 + uint32(r.Intn(5))
				}
			case 1:
				s.L = hostileU32(r, len(op.Data), len(op.Data)+1, total+1)
			default:
				s.M = hostileU32(r, g.B, g.B-g.W+1, 1<<31)
			}
		}
		ops = append(ops, op)
		if sut == "buffer" {
			switch r.Intn(3) {
			case 0:
				ops = append(ops, DOp{K: "read", N: r.Intn(b + 1)})
			case 1:
				ops = append(ops, DOp{K: "read", N: b})
			default:
				ops = append(ops, DOp{K: "writeto"})
			}
		} else if r.Intn(3) == 0 {
			ops = append(ops, DOp{K: "flush"})
		}
	}
	if sut == "decoder" {
		ops = append(ops, DOp{K: "flush"})
	}
	dc := DCase{WS: w, BS: b, SUT: sut, Ops: ops}
	if sut == "decoder" && r.Intn(3) == 0 {
		dc.Fault = map[int]WStep{}
		for i, nf := 0, 1+r.Intn(6); i < nf; i++ {
			dc.Fault[r.Intn(200)] = genWStep(r)
		}
	}
	return dc
}

// tinyBigCallDCase: buffers of 2 to 40 bytes and single calls that carry a
// megabyte: one Write of 1-1.5 MiB, one WriteBlock with 150000-250000
// sequences. The call has to drain far more than 65536 times.
func tinyBigCallDCase(r *rand.Rand, idx int64) DCase {
	b := 2 + r.Intn(39)
	if idx%2 == 0 {
		b = 16
	}
	w := 1 + r.Intn(b-1)
	if idx%4 == 0 {
		w = b - 1
	}
	var ops []DOp
	ops = append(ops, DOp{K: "write", Data: genLits(r, 1+r.Intn(b))})
	if idx%2 == 0 {
		ops = append(ops, DOp{K: "write", Data: genLits(r, 1<<20+r.Intn(1<<19))})
	} else {
		nseq := 150000 + r.Intn(100000)
		seqs := make([]DSeq, nseq)
		total := 0
		free := b - w
		for j := range seqs {
			l := r.Intn(3)
			m := r.Intn(4)
			if l+m > free {
				l, m = free/2, free-free/2
			}
			seqs[j] = DSeq{L: uint32(l), M: uint32(m), OK: 1 + r.Intn(5), O: uint32(r.Intn(1 << 16))}
			total += l
		}
		ops = append(ops, DOp{K: "block", Data: genLits(r, total+r.Intn(free+1)), Seqs: seqs})
	}
	ops = append(ops, DOp{K: "byte", Data: genLits(r, 1)}, DOp{K: "flush"})
	return DCase{WS: w, BS: b, SUT: "decoder", Ops: ops}
}

// hugeTightDCase: a window of a megabyte in a buffer that is 8-64 KiB larger
// (a multiple of the page size, and the first write has exactly BufferSize
// bytes, so that the array of the buffer is exactly as large as BufferSize),
// three to four megabytes of stream.
func hugeTightDCase(r *rand.Rand, sut string) DCase {
	w := 1 << 20
	b := w + 8192*[]int{1, 1, 2, 1 + r.Intn(8)}[r.Intn(4)]
	if r.Intn(4) == 0 {
		w, b = 2<<20, 2<<20+8192
	}
	free := b - w
	var ops []DOp
	if sut == "buffer" {
		ops = append(ops, DOp{K: "write", Data: genLits(r, b)}, DOp{K: "read", N: b})
	} else {
		// (Decoder.Write splits large slices; the literals of a block are
		// appended in one piece)
		ops = append(ops, DOp{K: "block", Data: genLits(r, b)})
	}
	total := b
	for total < 3*w+b {
		n := 1 + r.Intn(free)
		switch r.Intn(4) {
		case 0:
			n = free
		case 1:
			n = free - r.Intn(64)
		}
		if r.Intn(3) == 0 {
			ops = append(ops, DOp{K: "block", Data: genLits(r, n)})
		} else {
			ops = append(ops, DOp{K: "write", Data: genLits(r, n)})
		}
		total += n
		m := 1 + r.Intn(free)
		seq := DSeq{M: uint32(m), OK: []int{2, 2, 3, 4, 1}[r.Intn(5)], O: uint32(r.Intn(1 << 20))}
		total += m
		if sut == "buffer" {
			ops = append(ops, DOp{K: "read", N: b}, DOp{K: "match", Seqs: []DSeq{seq}}, DOp{K: "read", N: b})
		} else {
			ops = append(ops, DOp{K: "block", Seqs: []DSeq{seq}})
			if r.Intn(8) == 0 {
				ops = append(ops, DOp{K: "flush"})
			}
		}
	}
	if sut == "decoder" {
		ops = append(ops, DOp{K: "flush"})
	}
	return DCase{WS: w, BS: b, SUT: sut, Ops: ops}
}

// longMatchDCase: single matches of 64 KiB to 1 MiB with offsets that are no
// powers of two (and some that are). Half of the cases use a window of
// 64-100 kB in a buffer 70-200 kB larger that is kept nearly full with a part
// of it already read, so that the long match has to discard data first.
// hostile > 0: that percentage of the sequences carries a literal run and an
// offset of 0 or beyond the window.
func longMatchDCase(r *rand.Rand, sut string, hostile int) DCase {
	w := []int{1 << 20, 1 << 17, 200000}[r.Intn(3)]
	b := 2*w + r.Intn(3)*r.Intn(w)
	if r.Intn(3) == 0 {
		b = 4 << 20
	}
	tight := r.Intn(2) == 0
	if tight {
		w = []int{1 << 16, 100000, 70001}[r.Intn(3)]
		b = w + 70000 + r.Intn(130000)
	}
	offs := []int{1, 2, 3, 5, 7, 24, 1000, 40000, 65535, 65536, 65537, 100000, 4096, 3 * 4096}
	var ops []DOp
	first := 110000 + r.Intn(1000)
	if first > b {
		first = b
	}
	ops = append(ops, DOp{K: "write", Data: genLits(r, first)})
	buffered := first
	for len(ops) < 12 {
		o := offs[r.Intn(len(offs))]
		if o > w || o > first {
			o = 1 + r.Intn(100)
		}
		m := 65537 + r.Intn(b-w-65537)
		if r.Intn(2) == 0 {
			m = 65536 + r.Intn(b-w-65536+1)
		}
		// (OK 0: absolute offset; it is valid: the offsets are not larger
		// than the window or than what has been written)
		seq := DSeq{M: uint32(m), OK: 0, O: uint32(o)}
		lit := genLits(r, r.Intn(40))
		bad := r.Intn(100) < hostile
		if bad {
			if len(lit) == 0 {
				lit = genLits(r, 1+r.Intn(8))
			}
			seq.O = uint32([]int{0, w + 1, w + len(lit) + 1, b, 1 << 31}[r.Intn(5)])
		}
		seq.L = uint32(len(lit))
		if sut == "buffer" {
			if tight && !bad {
				// fill the buffer up, read a part of it
				fill := b - buffered - r.Intn(1000)
				if fill > 0 {
					ops = append(ops, DOp{K: "write", Data: genLits(r, fill)})
				}
				// (enough that the match fits after the read bytes are
				// discarded, not everything)
				ops = append(ops, DOp{K: "read", N: m + len(lit) + r.Intn(b-w-m+1)})
			} else {
				ops = append(ops, DOp{K: "read", N: b})
			}
			if bad || r.Intn(2) == 0 {
				ops = append(ops, DOp{K: "block", Data: lit, Seqs: []DSeq{seq}, Hostile: bad})
			} else {
				ops = append(ops, DOp{K: "write", Data: lit}, DOp{K: "match", Seqs: []DSeq{{M: seq.M, O: seq.O}}})
			}
			if !tight {
				ops = append(ops, DOp{K: "read", N: b})
			}
			buffered = w // (at least)
		} else {
			ops = append(ops, DOp{K: "block", Data: lit, Seqs: []DSeq{seq}, Hostile: bad})
		}
	}
	if sut == "decoder" {
		ops = append(ops, DOp{K: "flush"})
	}
	return DCase{WS: w, BS: b, SUT: sut, Ops: ops}
}

// scaleDCase dispatches the scale kinds shared by the decoder properties.
func scaleDCase(r *rand.Rand, class, sut string, idx int64, hostile int) (DCase, bool) {
	switch class {
	case "manyseq":
		return manySeqDCase(r, sut, hostile), true
	case "tinybig":
		return tinyBigCallDCase(r, idx), true
	case "hugetight":
		return hugeTightDCase(r, sut), true
	case "longmatch":
		return longMatchDCase(r, sut, hostile), true
	}
	return DCase{}, false
}
