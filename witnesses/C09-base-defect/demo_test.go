package suffix_test

// Demonstrates a defect of the UNMODIFIED library: suffix.Sort returns a
// non-permutation for one small input and never returns for another one. Both
// inputs exhaust the trSort budget while a tandem-repeat group of B* suffixes
// is pending, which routes the group through trPartialCopy; that function
// lacks the third loop of libdivsufsort's tr_partialcopy (see NOTES.md).
//
// Put this file into the suffix/ directory and run
//
//	go test -run 'TestBaseDefectC09' .

import (
	"bytes"
	"fmt"
	"sort"
	"strings"
	"testing"
	"time"

	"github.com/ulikunitz/lz/suffix"
)

// baseDefectC09WrongText is 74 bytes long: the 37 byte word W twice, where
// W = "af" "afb" "afc" ("afd")^4 "afc" ("afd")^3 "afe" "af".
func baseDefectC09WrongText() []byte {
	w := "af" + "afb" + "afc" + strings.Repeat("afd", 4) + "afc" +
		strings.Repeat("afd", 3) + "afe" + "af"
	return []byte(strings.Repeat(w, 2))
}

// baseDefectC09HangText is 55 bytes long: the 26 byte word U twice followed by
// "aec", where U = "aeaeaeb" "aaeb" "aeb" "aed" "aeb" "aeb" "aeb".
func baseDefectC09HangText() []byte {
	u := "aeaeaeb" + "aaeb" + "aeb" + "aed" + strings.Repeat("aeb", 3)
	return []byte(u + u + "aec")
}

func baseDefectC09Check(text []byte, sa []int32) error {
	want := make([]int32, len(text))
	for i := range want {
		want[i] = int32(i)
	}
	sort.Slice(want, func(i, j int) bool {
		return bytes.Compare(text[want[i]:], text[want[j]:]) < 0
	})
	for i := range want {
		if sa[i] != want[i] {
			return fmt.Errorf("sa[%d]=%d; want %d\n got  %d\n want %d",
				i, sa[i], want[i], sa, want)
		}
	}
	return nil
}

// sortWithTimeout runs suffix.Sort in its own goroutine. If Sort does not
// return in time the goroutine is abandoned (it keeps spinning until the test
// binary exits).
func baseDefectC09Sort(text []byte, d time.Duration) (sa []int32, err error) {
	type result struct {
		sa  []int32
		err error
	}
	ch := make(chan result, 1)
	go func() {
		var r result
		defer func() {
			if p := recover(); p != nil {
				r.err = fmt.Errorf("Sort panicked: %v", p)
			}
			ch <- r
		}()
		t := append([]byte(nil), text...)
		r.sa = make([]int32, len(t))
		suffix.Sort(t, r.sa)
	}()
	select {
	case r := <-ch:
		return r.sa, r.err
	case <-time.After(d):
		return nil, fmt.Errorf("Sort did not return within %s", d)
	}
}

func TestBaseDefectC09Wrong(t *testing.T) {
	text := baseDefectC09WrongText()
	if len(text) != 74 {
		t.Fatalf("len(text)=%d; want 74", len(text))
	}
	sa, err := baseDefectC09Sort(text, 5*time.Second)
	if err != nil {
		t.Fatalf("text=%q: %v", text, err)
	}
	if err = baseDefectC09Check(text, sa); err != nil {
		t.Fatalf("text=%q: %v", text, err)
	}
}

func TestBaseDefectC09Hang(t *testing.T) {
	text := baseDefectC09HangText()
	if len(text) != 55 {
		t.Fatalf("len(text)=%d; want 55", len(text))
	}
	sa, err := baseDefectC09Sort(text, 5*time.Second)
	if err != nil {
		t.Fatalf("text=%q: %v", text, err)
	}
	if err = baseDefectC09Check(text, sa); err != nil {
		t.Fatalf("text=%q: %v", text, err)
	}
}
