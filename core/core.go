// Package core defines the vocabulary shared by all monitors: concrete cases,
// violations, per-run statistics and the registry of property monitors.
package core

import (
	"encoding/json"
	"fmt"
	"hash/fnv"
	"math/rand"
	"sort"
)

// Case is one concrete, self-contained execution to monitor. Data is the
// monitor-specific concrete description (configuration, operation list, bytes,
// fault plan); it is what a replay file contains.
type Case struct {
	Prop string          `json:"prop"`
	Kind string          `json:"kind"`
	Idx  int64           `json:"idx"`
	Seed int64           `json:"seed"`
	Tier string          `json:"tier"`
	Data json.RawMessage `json:"data"`
}

// Violation is one refuting observation.
type Violation struct {
	Prop string `json:"prop"`
	// Class names the failing call site and condition. It is the key that
	// known_findings.json refers to; monitors compute it narrowly.
	Class string `json:"class"`
	Msg   string `json:"msg"`
	Case  Case   `json:"case"`
	// Replay is filled by the worker: path of the replay file.
	Replay string `json:"replay,omitempty"`
}

// Stats collects what a run observed.
type Stats struct {
	Evaluations int64            `json:"evaluations"`
	Counters    map[string]int64 `json:"counters"`
	// Transitions counts abstract (state class, operation, outcome) steps.
	Transitions map[string]int64 `json:"transitions"`
	// fingerprints of the distinct non-trivial cases
	FP      map[uint64]struct{} `json:"-"`
	Samples []json.RawMessage   `json:"samples"`
	// Inconclusive lists reasons why (part of) the run could not decide.
	Inconclusive []string `json:"inconclusive,omitempty"`
	// MaxCaseCPUms is the CPU time of the most expensive single case (the
	// per-case budget of the watchdog must be far above it).
	MaxCaseCPUms int64  `json:"max_case_cpu_ms"`
	MaxCaseKind  string `json:"max_case_kind,omitempty"`
	MaxCaseIdx   int64  `json:"max_case_idx,omitempty"`
	// MaxKindCPUms is the same per kind of case.
	MaxKindCPUms map[string]int64 `json:"max_kind_cpu_ms,omitempty"`
}

// NewStats returns an empty statistics value.
func NewStats() *Stats {
	return &Stats{
		Counters:    map[string]int64{},
		Transitions: map[string]int64{},
		FP:          map[uint64]struct{}{},
	}
}

// Inc increments a counter.
func (s *Stats) Inc(name string) { s.Counters[name]++ }

// Add adds n to a counter.
func (s *Stats) Add(name string, n int64) { s.Counters[name] += n }

// Tr records an abstract transition.
func (s *Stats) Tr(state, op, outcome string) {
	s.Transitions[state+" | "+op+" | "+outcome]++
}

// NonTrivial records the fingerprint of a case that satisfied the
// non-triviality rule of its property.
func (s *Stats) NonTrivial(c *Case) {
	h := fnv.New64a()
	h.Write([]byte(c.Kind))
	h.Write(c.Data)
	s.FP[h.Sum64()] = struct{}{}
}

// Sample keeps up to max concrete cases for the evidence file.
func (s *Stats) Sample(c *Case, max int) {
	if len(s.Samples) >= max {
		return
	}
	b, err := json.Marshal(c)
	if err != nil {
		return
	}
	if len(b) > 6000 {
		// keep evidence files readable: store only coordinates and a prefix
		b, _ = json.Marshal(map[string]any{"prop": c.Prop, "kind": c.Kind,
			"idx": c.Idx, "seed": c.Seed, "tier": c.Tier,
			"data_prefix": string(c.Data[:3000]), "data_len": len(c.Data)})
	}
	s.Samples = append(s.Samples, b)
}

// Merge adds the numbers of t to s.
func (s *Stats) Merge(t *Stats, maxSamples int) {
	s.Evaluations += t.Evaluations
	for k, v := range t.Counters {
		s.Counters[k] += v
	}
	for k, v := range t.Transitions {
		s.Transitions[k] += v
	}
	for k := range t.FP {
		s.FP[k] = struct{}{}
	}
	for _, x := range t.Samples {
		if len(s.Samples) < maxSamples {
			s.Samples = append(s.Samples, x)
		}
	}
	s.Inconclusive = append(s.Inconclusive, t.Inconclusive...)
	if t.MaxCaseCPUms > s.MaxCaseCPUms {
		s.MaxCaseCPUms, s.MaxCaseKind, s.MaxCaseIdx = t.MaxCaseCPUms, t.MaxCaseKind, t.MaxCaseIdx
	}
	for k, v := range t.MaxKindCPUms {
		if s.MaxKindCPUms == nil {
			s.MaxKindCPUms = map[string]int64{}
		}
		if v > s.MaxKindCPUms[k] {
			s.MaxKindCPUms[k] = v
		}
	}
}

// Segment is a contiguous family of cases of one kind.
type Segment struct {
	Kind string
	N    int64
	// Chunk is the number of cases a worker takes at once (0: default).
	Chunk int64
	// Exhaustive marks a segment that enumerates a finite space completely.
	Exhaustive bool
}

// Property is the interface every monitor implements.
type Property interface {
	ID() string
	// Level is the MANIFEST level category.
	Level() string
	// Rule describes generation and the non-triviality rule.
	Rule() string
	// Assumptions lists what the check trusts.
	Assumptions() []string
	// Plan lists the segments of cases for the tier; it is a function of
	// tier and seed only (never of time).
	Plan(tier string, seed int64) []Segment
	// Gen builds the concrete case idx of a segment.
	Gen(kind string, idx int64, seed int64, tier string) Case
	// Run executes the case under the monitor.
	Run(c *Case, st *Stats) []Violation
	// Mandatory lists counters that must be non-zero after a run; otherwise
	// the run observed nothing it can vouch for and is inconclusive.
	Mandatory(tier string) []string
	// Expected lists counters / functions whose absence is reported under
	// not_observed (informational).
	Expected(tier string) []string
}

var registry = map[string]Property{}

// Register adds a property monitor.
func Register(p Property) {
	if _, ok := registry[p.ID()]; ok {
		panic("duplicate property " + p.ID())
	}
	registry[p.ID()] = p
}

// Lookup returns the monitor for id.
func Lookup(id string) (Property, bool) {
	p, ok := registry[id]
	return p, ok
}

// IDs returns all registered ids in order.
func IDs() []string {
	var s []string
	for k := range registry {
		s = append(s, k)
	}
	sort.Strings(s)
	return s
}

// Rand returns the PRNG for a case; it is keyed by everything that identifies
// the case, so cases are independent of sharding and order.
func Rand(seed int64, prop, kind string, idx int64) *rand.Rand {
	h := fnv.New64a()
	fmt.Fprintf(h, "%d|%s|%s|%d", seed, prop, kind, idx)
	return rand.New(rand.NewSource(int64(h.Sum64())))
}

// MkCase marshals the concrete data of a case.
func MkCase(prop, kind string, idx, seed int64, tier string, data any) Case {
	b, err := json.Marshal(data)
	if err != nil {
		panic(err)
	}
	return Case{Prop: prop, Kind: kind, Idx: idx, Seed: seed, Tier: tier, Data: b}
}

// V builds a violation.
func V(c *Case, class, format string, args ...any) Violation {
	return Violation{Prop: c.Prop, Class: class, Msg: fmt.Sprintf(format, args...), Case: *c}
}
