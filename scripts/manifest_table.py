HOOK_COMMITS = ["9e41193"]
NOTE_HIST = "Trusted base: the harness' byte-list reference models (expander, stream model), Go's runtime bounds checks, and the seeded generators; held-on-observed executions only, bounded geometries (DESIGN.md section 10)."
CHECKS = [
 {"id": "C01", "level": "exploration", "design_ref": "5/C01",
  "text": "Every block of every generated parser history (all 7 parsers, boundary-biased tiny buffer geometries so that Shrink/re-basing/re-sort fire constantly, adversarial byte families, all delivery routes) is expanded by an independent byte-list LZ77 expander and compared with the bytes fed. Held on the executions listed in the evidence; not a proof.",
  "note": NOTE_HIST, "technique": "runtime monitoring: reference LZ77 expander as online oracle over seeded API histories"},
 {"id": "C02", "level": "exploration", "design_ref": "5/C02",
  "text": "Per-sequence well-formedness predicate (offset range vs. window and stream position, minimum/maximum match length, Aux, literal accounting) evaluated on every emitted sequence, with windows smaller/equal/larger than buffer, shrink and block size and repeats placed exactly at the window edge.",
  "note": NOTE_HIST, "technique": "runtime monitoring: invariant predicate on every emitted sequence, positions from the harness' stream model"},
 {"id": "C03", "level": "exploration", "design_ref": "5/C03",
  "text": "(n, err, block) predicates and stream contiguity checked on every Parse call of the histories, both flag values at every call site, sentinel block content to observe emptying.",
  "note": NOTE_HIST, "technique": "runtime monitoring: per-call oracle on Parse results against the stream model"},
 {"id": "C14", "level": "exploration", "design_ref": "5/C14",
  "text": "Histories with about 30% Parse(nil): n == min(BlockSize, unparsed), ErrEmptyBuffer iff empty, later blocks must expand correctly for a decoder that holds the skipped bytes verbatim.",
  "note": NOTE_HIST, "technique": "runtime monitoring: per-call oracle + reference expander with verbatim skipped bytes"},
]
NOT_APPLICABLE = []
