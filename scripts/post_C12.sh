AUX=bitset
. "$SRC/scripts/aux_hooks.sh"
