# sourced by run_C12.sh / run_C19.sh with $AUX (bitset|lcp): runs the auxiliary
# internal monitor built with the verif tag and records its result in the
# evidence file. Diagnostics only: it never changes the exit code.
if [ -d "$SRC/cmd/verifhooks" ] && build hooks >/dev/null 2>&1; then
	"$WORK/bin/verif-hooks" "$AUX" >"$WORK/aux-$ID.json" 2>"$WORK/aux-$ID.err" || true
else
	echo '[{"monitor":"'"$AUX"'","unavailable":"hook build (tag verif) failed; the auxiliary monitor contributes nothing"}]' >"$WORK/aux-$ID.json"
fi
python3 - "$OUT/evidence/$ID.json" "$WORK/aux-$ID.json" <<'PY'
import json,sys
try:
    ev=json.load(open(sys.argv[1])); aux=json.load(open(sys.argv[2]))
    ev['coverage']['auxiliary_internal_monitors']=aux
    json.dump(ev,open(sys.argv[1],'w'),indent=1)
    for a in aux:
        if a.get('mismatches'):
            print("AUX-MONITOR %s: %d mismatches, first: %s (diagnostic only)"%(a['monitor'],a['mismatches'],a.get('first_mismatch')))
except Exception as e:
    print("aux monitor result not recorded:",e)
PY
