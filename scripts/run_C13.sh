# sourced by ./check for C13: the whole check runs in a -race build
if build race; then
	VERIF_RACE=1 "$WORK/bin/verif-race" run -tier "$TIER" -seed "$SEED" -bin "$WORK/bin/verif-race" C13
	rc=$?
else
	echo "INCONCLUSIVE property=C13 reason=race build failed"
	rc=2
fi
