# sourced by ./check for C13: the kinds that drive distinct instances from
# several goroutines ("conc") run in a -race build; the reset/twin/margin/
# wrapreset kinds use a single goroutine per case and run in the plain build
if build race; then
	VERIF_RACE=1 "$WORK/bin/verif-race" run -tier "$TIER" -seed "$SEED" -bin "$WORK/bin/verif-race" -plainbin "$WORK/bin/verif" C13
	rc=$?
else
	echo "INCONCLUSIVE property=C13 reason=race build failed"
	rc=2
fi
