#!/usr/bin/env python3
"""Mutation survey (not part of any check): generates single-site mutants of the
library with cmd/mutate, runs the quick checks of the properties anchored in the
mutated file against a scratch copy (first the most relevant ones, stopping at
the first check that reports a violation) and lists the survivors.

usage: scripts/mutation_survey.py <stride> <offset> <result.tsv> [files]
"""
import os, subprocess, sys, shutil, json, concurrent.futures as cf
root = os.path.dirname(os.path.dirname(os.path.abspath(__file__)))
stride, offset, result = int(sys.argv[1]), int(sys.argv[2]), sys.argv[3]
files = sys.argv[4] if len(sys.argv) > 4 else ''
env = dict(os.environ, GOFLAGS='-mod=mod', GOPROXY='off', GOSUMDB='off', GOTOOLCHAIN='local')
REL = {
 'parser_buffer.go': 'C15 C01 C03 C16 C08 C14 C13',
 'hp.go': 'C01 C02 C19 C03 C14 C16 C13', 'bhp.go': 'C01 C02 C19 C03 C14 C16 C13',
 'dhp.go': 'C01 C02 C19 C03 C14 C16 C13', 'bdhp.go': 'C01 C02 C19 C03 C14 C16 C13',
 'bup.go': 'C01 C02 C19 C03 C14 C16 C13', 'hash.go': 'C01 C02 C19 C13 C14 C16 C20',
 'bucket_hash.go': 'C01 C02 C19 C13 C14 C16 C20',
 'gsap.go': 'C12 C01 C02 C19 C03 C14 C13 C16', 'bitset.go': 'C12 C01 C13 C19',
 'osap.go': 'C11 C01 C02 C03 C14 C19 C13 C16 C20',
 'decoder_buffer.go': 'C04 C05 C17 C06 C18 C07',
 'wrap.go': 'C08 C01 C16 C13', 'lz.go': 'C20 C16 C01 C15',
 'bytes.go': 'C19 C01 C02 C12', 'ints.go': 'C01 C04 C15 C19',
}
SUFFIX = 'C09 C10 C11 C12 C01'
work = '/tmp/msurv-%d-%d' % (stride, offset)
shutil.rmtree(work, ignore_errors=True)
os.makedirs(work)
subprocess.run(['go', 'build', '-o', work + '/mutate', './cmd/mutate'], cwd=root, env=env, check=True)
cmd = [work + '/mutate', '-repo', '/repo', '-out', work + '/m', '-stride', str(stride), '-offset', str(offset)]
if files:
    cmd += ['-files', files]
print(subprocess.run(cmd, capture_output=True, text=True).stdout.strip(), flush=True)

def run(n):
    d = os.path.join(work, 'm', n)
    meta = open(os.path.join(d, 'meta.txt')).read().split('\n')
    rel, where, desc = meta[0], meta[1], meta[2]
    scratch = os.path.join(work, 's' + n)
    os.makedirs(scratch + '/repo'); os.makedirs(scratch + '/out')
    subprocess.run('git -C /repo archive HEAD | tar -x -C %s/repo' % scratch, shell=True, check=True)
    shutil.copy(os.path.join(d, rel), os.path.join(scratch, 'repo', rel))
    shutil.copy(os.path.join(root, 'known_findings.json'), scratch + '/out/')
    b = subprocess.run(['go', 'build', './...'], cwd=scratch + '/repo', env=env, capture_output=True, text=True)
    res, by, detail = 'SURVIVED', '', ''
    if b.returncode != 0:
        res = 'NOBUILD'
    else:
        checks = (SUFFIX if rel.startswith('suffix/') else REL.get(rel, 'C01 C04 C15 C20')).split()
        for c in checks:
            e = dict(env, VERIF_REPO=scratch + '/repo', VERIF_OUT=scratch + '/out')
            p = subprocess.run([os.path.join(root, 'check'), c, 'quick'], env=e, capture_output=True, text=True)
            if p.returncode == 1:
                res, by = 'KILLED', c
                for line in p.stdout.split('\n'):
                    if line.strip().startswith('class='):
                        detail = line.strip()[:100]
                        break
                break
            if p.returncode != 0 and res == 'SURVIVED':
                # no verdict from this check (e.g. nothing could be observed
                # because every configuration is rejected): ask the others
                res, by, detail = 'INCONCLUSIVE', c, p.stdout[-200:].replace('\n', ' ')
    shutil.rmtree(scratch, ignore_errors=True)
    line = '\t'.join([n, res, by, where, desc, detail])
    with open(result, 'a') as f:
        f.write(line + '\n')
    print(line, flush=True)

names = sorted(os.listdir(work + '/m'))
with cf.ThreadPoolExecutor(max_workers=2) as ex:
    list(ex.map(run, names))
shutil.rmtree(work, ignore_errors=True)
