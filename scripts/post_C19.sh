AUX=lcp
. "$SRC/scripts/aux_hooks.sh"
