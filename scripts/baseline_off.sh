#!/bin/bash
# Runs the repository's own test suite with the verif build tag OFF and
# compares the result with the stable tests of /root/.vp/BASELINE.json.
# exit 0 iff every stable test passed.
export GOFLAGS=-mod=mod GOPROXY=off GOSUMDB=off GOTOOLCHAIN=local
REPO=${VERIF_REPO:-/repo}
BASE=${VERIF_BASELINE:-/root/.vp/BASELINE.json}
[ -f "$BASE" ] || BASE="$(dirname "$0")/stable_tests.json"
out=$(mktemp)
trap 'rm -f "$out"' EXIT
(cd "$REPO" && go test -json -vet=off -count=1 -timeout 25m ./... ) >"$out" 2>&1
python3 - "$out" "$BASE" <<'PY'
import json,sys
res={}
for line in open(sys.argv[1],errors='replace'):
    line=line.strip()
    if not line.startswith('{'): continue
    try: e=json.loads(line)
    except Exception: continue
    if e.get('Test') and e.get('Action') in ('pass','fail','skip'):
        res[e['Package']+'::'+e['Test']]=e['Action']
try:
    stable=json.load(open(sys.argv[2]))['stable_pass']
except Exception:
    stable=None
if stable is None:
    # fall back: list embedded below
    stable=[]
bad=[t for t in stable if res.get(t)!='pass']
print("baseline: %d stable tests, %d passed, %d not passing"%(len(stable),len(stable)-len(bad),len(bad)))
for t in bad: print("  NOT PASSING:",t,res.get(t))
sys.exit(1 if bad or not stable else 0)
PY
