#!/bin/bash
# usage: scripts/sweep.sh <tier> <seed>...   runs every check at the given seeds
# and prints one line per run; used to confirm silence on the unchanged tree.
# SWEEP_IDS="01 05" restricts the run to some checks.
cd "$(dirname "$0")/.."
TIER=$1; shift
for s in "$@"; do
	for i in ${SWEEP_IDS:-01 02 03 04 05 06 07 08 09 10 11 12 13 14 15 16 17 18 19 20}; do
		t0=$(date +%s)
		VERIF_SEED=$s ./check C$i $TIER >/tmp/sweep_$$.log 2>&1
		rc=$?
		printf "seed=%s C%s %s rc=%d %ds %s\n" $s $i $TIER $rc $(( $(date +%s) - t0 )) "$(grep -E '^(VIOLATION|INCONCLUSIVE)' /tmp/sweep_$$.log | head -2 | tr '\n' ' ' | cut -c1-200)"
		if [ $rc -ne 0 ]; then
			grep -A3 -E '^(VIOLATION|INCONCLUSIVE)' /tmp/sweep_$$.log | head -12
			# keep the replay files (a background run's snapshot is removed)
			mkdir -p /tmp/sweep_replays/$TIER-$s-C$i
			cp -f .work/C$i/replay-* /tmp/sweep_replays/$TIER-$s-C$i/ 2>/dev/null
			cp -f /tmp/sweep_$$.log /tmp/sweep_replays/$TIER-$s-C$i/log.txt
		fi
	done
done
rm -f /tmp/sweep_$$.log
