#!/bin/bash
# usage: scripts/recheck_seeded.sh [<ID>/<mN> ...]   (default: all)
# Re-runs the quick check of the property of every seeded change against a
# scratch copy with the change applied and records the result in meta.json
# (confirmed.quick_check_result; the result of the first run is kept as
# confirmed.first_quick_check_result).
cd "$(dirname "$0")/.."
list=("$@")
if [ ${#list[@]} -eq 0 ]; then
	for d in seeded/C*/*/; do d=${d%/}; list+=("${d#seeded/}"); done
fi
run1() {
	x=$1; id=${x%%/*}
	det=$(scripts/mutant.sh seeded/$x/patch.diff $id 2>&1 | tail -1)
	if [ -n "${RECHECK_NOWRITE:-}" ]; then
		# only report (used to see how much a detection depends on VERIF_SEED)
		echo "$x: $det" | cut -c1-160
		return
	fi
	python3 - "seeded/$x/meta.json" "$det" <<'PY'
import json,sys
f,det=sys.argv[1:3]
m=json.load(open(f))
c=m.setdefault('confirmed',{})
old=c.get('quick_check_result','')
if det.startswith('PATCH-FAILED'):
    # the patch was made for an earlier HEAD and no longer applies: keep the
    # recorded result
    sys.exit(0)
if 'first_quick_check_result' not in c: c['first_quick_check_result']=old
c['quick_check_result']=det
if c['first_quick_check_result'].startswith('MISSED') and det.startswith('DETECTED'):
    m['detected_after']='detected after the check was strengthened (see DESIGN.md section 14)'
json.dump(m,open(f,'w'),indent=1)
PY
	echo "$x: $det" | cut -c1-160
}
export -f run1
printf "%s\n" "${list[@]}" | xargs -P 4 -I{} bash -c 'run1 {}'
[ -n "${RECHECK_NOWRITE:-}" ] || python3 scripts/catches.py
