#!/bin/bash
# usage: scripts/mutant.sh <patch.diff> <ID> [<ID>...]
# Applies the patch to a scratch copy of /repo (outside /repo and /verif), runs
# the quick check (VERIF_TIER may override) of the given properties against the
# copy and removes the copy. Prints one line per property: DETECTED / MISSED.
set -u
PATCH=$(readlink -f "$1"); shift
SRC=$(cd "$(dirname "$0")/.." && pwd)
NAME=$(echo "$PATCH" | md5sum | cut -c1-10)
D=/tmp/vmut/$NAME
rm -rf "$D"; mkdir -p "$D/repo" "$D/out"
trap 'rm -rf "$D"' EXIT
git -C /repo archive HEAD | tar -x -C "$D/repo"
if ! (cd "$D/repo" && patch -p1 -s <"$PATCH"); then echo "PATCH-FAILED $PATCH"; exit 2; fi
cp "$SRC/known_findings.json" "$D/out/"
for ID in "$@"; do
	t0=$(date +%s.%N)
	VERIF_REPO="$D/repo" VERIF_OUT="$D/out" "$SRC/check" "$ID" "${VERIF_TIER:-quick}" >"$D/out/$ID.log" 2>&1
	rc=$?
	t1=$(date +%s.%N)
	case $rc in
	1) printf "DETECTED %s by %s (%.1fs): %s\n" "$(basename "$(dirname "$PATCH")")/$(basename "$PATCH")" "$ID" "$(echo "$t1-$t0" | bc)" "$(grep -m1 -A1 '^VIOLATION' "$D/out/$ID.log" | tail -1 | cut -c1-220)" ;;
	0) printf "MISSED   %s by %s (%.1fs)\n" "$(basename "$(dirname "$PATCH")")/$(basename "$PATCH")" "$ID" "$(echo "$t1-$t0" | bc)" ;;
	*) printf "INCONCL  %s by %s rc=%d: %s\n" "$(basename "$(dirname "$PATCH")")/$(basename "$PATCH")" "$ID" $rc "$(tail -3 "$D/out/$ID.log" | tr '\n' ' ' | cut -c1-300)" ;;
	esac
	[ -n "${KEEPLOG:-}" ] && cp "$D/out/$ID.log" "/tmp/mutlog-$NAME-$ID.log"
done
exit 0
