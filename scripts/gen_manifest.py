#!/usr/bin/env python3
"""Generates MANIFEST.json from the table below (kept next to the code so
that the manifest always lists exactly the checks that exist)."""
import json, os, subprocess, sys
here = os.path.dirname(os.path.abspath(__file__))
root = os.path.dirname(here)
sys.path.insert(0, here)
from manifest_table import CHECKS, NOT_APPLICABLE, HOOK_COMMITS
checks = []
for c in CHECKS:
    checks.append({
        "property_id": c["id"],
        "quick_cmd": "./check %s quick" % c["id"],
        "thorough_cmd": "./check %s thorough" % c["id"],
        "evidence_file": "/verif/evidence/%s.json" % c["id"],
        "replay_cmd_template": "./check %s --replay {path}" % c["id"],
        "engine": "verif",
        "level_claimed": {"category": c["level"], "text": c["text"], "design_ref": c["design_ref"]},
        "level_note": c["note"],
        "technique": c["technique"],
    })
m = {
    "version": 1,
    "setup_cmd": "./check --setup",
    "hooks": {
        "guard": "verif",
        "enable": "go build -tags verif (only the auxiliary internal monitors of C12/C19 use the hooks; every verdict monitor is built without the tag against /repo's working tree through the module replace directive)",
        "baseline_off_cmd": "scripts/baseline_off.sh",
        "source_commits": HOOK_COMMITS,
        "add_only": True,
    },
    "engines": [{
        "name": "verif",
        "path": "cmd/verif",
        "serves_properties": [c["id"] for c in CHECKS],
        "kind_free_text": "runtime monitoring: one Go binary (orchestrator + isolated worker processes with CPU/address-space rlimits + replay) that executes the real library under seeded hostile workloads and decides every call with reference-model oracles at the public API boundary; race detector build for C13; coverage-counter build for reach evidence",
    }],
    "checks": checks,
    "not_applicable": NOT_APPLICABLE,
    "notes": "Exit codes: 0 held on everything explored, 1 violation (VIOLATION line), 2 inconclusive (never folded into the others). VERIF_SEED selects the seeded part of each workload; a fixed-seed directed corpus is always included. Known findings: known_findings.json.",
}
json.dump(m, open(os.path.join(root, "MANIFEST.json"), "w"), indent=1)
print("MANIFEST.json written with %d checks" % len(checks))
