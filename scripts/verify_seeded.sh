#!/bin/bash
# usage: scripts/verify_seeded.sh <ID> <mN> [<src dir>]   (default src /tmp/wt/<ID>/out/<mN>)
# Confirms independently that a seeded change (1) applies to /repo HEAD, (2) still
# compiles and passes the pinned suite, (3) makes its demonstration fail, which
# passes without it; then stores it under /verif/seeded/<ID>/<mN>/ and records
# which checks detect it.
set -u
ID=$1; M=$2; SRC=${3:-/tmp/wt12/$ID/out/$M}
ROOT=$(cd "$(dirname "$0")/.." && pwd)
export GOFLAGS=-mod=mod GOPROXY=off GOSUMDB=off GOTOOLCHAIN=local
D=/tmp/vseed/$ID-$M
rm -rf "$D"; mkdir -p "$D/repo"
trap 'rm -rf "$D"' EXIT
git -C /repo archive HEAD | tar -x -C "$D/repo"
[ -f "$SRC/patch.diff" ] || { echo "$ID/$M: no patch"; exit 1; }
demodir=$(python3 -c "import json;print(json.load(open('$SRC/meta.json')).get('demo_dir','.'))" 2>/dev/null || echo .)
[ "$demodir" = "" ] && demodir=.
cp "$SRC/demo_test.go" "$D/repo/$demodir/zz_seeded_demo_test.go"
testname=$(grep -o 'func TestSeeded[A-Za-z0-9_]*' "$SRC/demo_test.go" | head -1 | sed 's/func //')
run_demo() { (cd "$D/repo/$demodir" && timeout 300 go test -vet=off -count=1 -run "^$testname\$" . >"$D/demo.log" 2>&1); }
run_demo; base_rc=$?
if ! (cd "$D/repo" && git apply --check "$SRC/patch.diff" 2>/dev/null || patch -p1 --dry-run -s <"$SRC/patch.diff" >/dev/null 2>&1); then echo "$ID/$M: PATCH DOES NOT APPLY"; exit 1; fi
(cd "$D/repo" && patch -p1 -s <"$SRC/patch.diff") || { echo "$ID/$M: patch failed"; exit 1; }
(cd "$D/repo" && go build ./... ) >"$D/build.log" 2>&1 || { echo "$ID/$M: DOES NOT BUILD"; cat "$D/build.log" | head; exit 1; }
rm -f "$D/repo/$demodir/zz_seeded_demo_test.go"
VERIF_REPO="$D/repo" "$ROOT/scripts/baseline_off.sh" >"$D/suite.log" 2>&1; suite_rc=$?
cp "$SRC/demo_test.go" "$D/repo/$demodir/zz_seeded_demo_test.go"
run_demo; mut_rc=$?
echo "$ID/$M: demo without change rc=$base_rc, suite with change rc=$suite_rc, demo with change rc=$mut_rc ($testname in $demodir)"
if [ $base_rc -ne 0 ] || [ $suite_rc -ne 0 ] || [ $mut_rc -eq 0 ]; then echo "$ID/$M: NOT CONFIRMED"; tail -5 "$D/demo.log"; exit 1; fi
OUT=$ROOT/seeded/$ID/$M
mkdir -p "$OUT"
cp "$SRC/patch.diff" "$SRC/demo_test.go" "$OUT/"
det=$("$ROOT/scripts/mutant.sh" "$SRC/patch.diff" "$ID" 2>&1 | tail -1)
python3 - "$SRC/meta.json" "$OUT/meta.json" "$ID" "$testname" "$demodir" "$det" <<'PY'
import json,sys,subprocess
src,out,ID,test,ddir,det=sys.argv[1:7]
try: m=json.load(open(src))
except Exception: m={}
head=subprocess.run(['git','-C','/repo','rev-parse','--short','HEAD'],capture_output=True,text=True).stdout.strip()
m['breaks_property']=ID
m['confirmed']={'repo_head':head,'what_was_run':[
  'git -C /repo archive HEAD into a scratch copy under /tmp/vseed',
  'go test -run ^%s$ in %s WITHOUT the change: passes'%(test,ddir),
  'patch -p1 < patch.diff; go build ./...: builds',
  'scripts/baseline_off.sh on the copy: all 31 stable tests pass',
  'go test -run ^%s$ WITH the change: fails'%test,
  'scripts/mutant.sh patch.diff %s (quick check of %s against the changed copy)'%(ID,ID)],
  'quick_check_result':det}
json.dump(m,open(out,'w'),indent=1)
PY
echo "$ID/$M: stored; $det" | cut -c1-200
