#!/bin/bash
# usage: funccov.sh <covdir> <evidence.json> [go mod flags...]
# Turns the coverage counters the workers wrote (GOCOVERDIR) into per-function
# reach evidence of the library under test and stores it in the evidence file.
# Informational only: it never changes a verdict.
COV=$1; EV=$2; shift 2
cd "$(dirname "$0")/.."
export GOFLAGS="-mod=mod $*" GOPROXY=off GOSUMDB=off GOTOOLCHAIN=local
PROF=$(mktemp)
trap 'rm -f "$PROF" "$PROF.func"' EXIT
go tool covdata textfmt -i="$COV" -o "$PROF" 2>/dev/null || exit 0
go tool cover -func="$PROF" >"$PROF.func" 2>/dev/null || exit 0
python3 - "$PROF.func" "$EV" <<'PY'
import json,re,sys
funcs={}
for line in open(sys.argv[1]):
    m=re.match(r'(\S+?):(\d+):\s+(\S+)\s+([\d.]+)%',line)
    if not m: continue
    path,_,fn,pct=m.groups()
    if 'ulikunitz/lz' not in path: continue
    short=path.split('ulikunitz/lz/')[-1]
    if short.endswith('_test.go'): continue
    funcs[short+':'+fn]=float(pct)
ev=json.load(open(sys.argv[2]))
cov=ev['coverage']
cov['library_function_coverage_percent']=funcs
cov['library_functions_not_entered']=sorted(k for k,v in funcs.items() if v==0)
cov['library_functions_entered']=sum(1 for v in funcs.values() if v>0)
json.dump(ev,open(sys.argv[2],'w'),indent=1)
print("reach: %d of %d library functions entered"%(cov['library_functions_entered'],len(funcs)))
PY
