#!/usr/bin/env python3
"""Lists, from the evidence files, the kinds of cases whose CPU budget is less
than 10 times the most expensive case observed."""
import json,glob,os,sys
root=os.path.dirname(os.path.dirname(os.path.abspath(__file__)))
bad=0
for f in sorted(glob.glob(os.path.join(root,'evidence','C*.json'))):
    e=json.load(open(f)); m=e['coverage'].get('most_expensive_case',{})
    for k,v in sorted(m.get('per_kind',{}).items()):
        b,ms=v['cpu_budget_s'],v['most_expensive_case_cpu_ms']
        flag='' if b*1000>=10*ms else '  <-- budget below 10x'
        if flag or '-v' in sys.argv:
            print(os.path.basename(f)[:3],e.get('tier'),k,'budget',b,'s  max',ms,'ms',flag)
        if flag: bad+=1
sys.exit(1 if bad else 0)
