#!/bin/bash
# usage: scripts/verify_round5.sh F01 [F02 ...]: confirms the file-centred
# changes under /tmp/wt5/<F>/out/n1..n3 and stores them under
# seeded/<property>/<F>n<k>/ (the property is named in their meta.json)
cd "$(dirname "$0")/.."
for F in "$@"; do
	for n in n1 n2 n3; do
		src=/tmp/wt5/$F/out/$n
		[ -f $src/meta.json ] || { echo "$F/$n: missing"; continue; }
		prop=$(python3 -c "import json,re;p=str(json.load(open('$src/meta.json')).get('property',''));m=re.search(r'C\d\d',p);print(m.group(0) if m else '')")
		[ -n "$prop" ] || { echo "$F/$n: no property"; continue; }
		scripts/verify_seeded.sh $prop ${F}$n $src
	done
done
